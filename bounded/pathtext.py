"""Bounded checks of path-data text: C01/C17 (grammar strings), C09 (arbitrary strings), C07 (d() round trip).

Oracle: /verif/spec/pathgrammar.py (recursive-descent reader of the SVG 2 path EBNF + interpreter of SVG 2
section 9.3 + SVG F.6.5 arc centre parameterisation), written from the specification, sharing no code with
svgelements.  The string generators below build an abstract command list first (intended numbers) and render
it with chosen spellings/separators; the oracle reader must recover exactly the intended numbers, which
cross-checks generator and oracle against each other on every generated string.
"""
import gc
import importlib.util
import math
import random
import re
import signal
import time

import sys

import pyvc.bounded as _pb
from spec import pathgrammar as G


def bounded(name, props, replay=None):
    """pyvc.bounded.bounded, also registering in __main__ when the runner is started with
    `python -m pyvc.bounded` (then __main__ and pyvc.bounded are two module objects with two registries)."""
    deco0 = _pb.bounded(name, props, replay)

    def deco(fn):
        deco0(fn)
        m = sys.modules.get("__main__")
        if m is not None and m is not _pb and isinstance(getattr(m, "BOUNDED", None), dict) \
                and m.BOUNDED is not _pb.BOUNDED and name not in m.BOUNDED:
            m.BOUNDED[name] = _pb.BOUNDED[name]
            m.ORDER.append(name)
        return fn

    return deco

# svgelements tries `import numpy` / `from scipy...` on every point()/length() call; in this interpreter both are
# absent and every failing import walks sys.path (170 us per call). A None entry in sys.modules makes the same
# ImportError immediate. Only done when the modules really are absent (the configuration under test).
for _m in ("numpy", "scipy", "scipy.special", "scipy.integrate"):
    if _m not in sys.modules and importlib.util.find_spec(_m.split(".")[0]) is None:
        sys.modules[_m] = None

LETTERS = "MmZzLlHhVvCcSsQqTtAa"
NNUM = {"M": 2, "L": 2, "T": 2, "H": 1, "V": 1, "C": 6, "S": 4, "Q": 4, "A": 7, "Z": 0}

# ---------------------------------------------------------------------------------------------------------
# explanations of the defect classes (key prefix -> text)
# ---------------------------------------------------------------------------------------------------------
EXPLAIN = {
    "smooth-after-other-degree":
        "SVG 2 9.3.5/9.3.6: S/s reflects the previous control point only after C/c/S/s, T/t only after "
        "Q/q/T/t; otherwise the first control point coincides with the current point. The library's "
        "Path.smooth_point reflects the control of ANY preceding Bezier, so S after Q/T reflects the quadratic "
        "control and T after C/S reflects the cubic's second control.",
    "arc-zero-radius-not-line":
        "SVG F.6.2/F.6.6: an arc with rx = 0 or ry = 0 is a straight line from start to end. The library keeps "
        "an Arc with sweep 0 whose interior points all equal the start point (zero length, no extent).",
    "segment-kinds-differ": "number or kinds of segments differ from the SVG interpretation of the string.",
    "continuation": "C17: appending path data must continue the interpretation exactly as one string would.",
    "without-number": "SVG 2 9.5.4: a command without its operand is an error in the path data: the parser "
                      "must stop with ValueError (or return) keeping the earlier segments.",
    "no-current-point": "path data that does not begin with a moveto is in error (SVG 2 9.3.3); the library "
                        "accepts some of these leniently but the commands that need the current point crash "
                        "with an exception type other than ValueError.",
    "arc-bad-flag": "an arc flag other than the single characters 0/1 is an error inside that arc command; "
                    "nothing of that arc may be retained.",
    "arc-incomplete": "the 'A' branch of the lexer does not check that ry / rotation / flags were read (the 'a' "
                      "branch checks the sweep flag): 'A 1 z' reaches Path.arc with None operands (TypeError), and "
                      "when start == close target a degenerate Arc is retained.",
    "close-followed-by-number": "'z' takes no operands: the closepath itself is complete and valid, the number "
                                "after it is the first error; render-up-to-the-error keeps the Close.",
    "number-overflow": "a number whose value overflows to infinity is retained as an inf coordinate; later "
                       "serialisation prints INF/NAN (unparseable) and lengths/bboxes become inf/nan.",
    "subpath-without-move": "Subpath.d() of a subpath that directly follows a close (no moveto of its own) starts "
                            "with a drawing command, so its start point / close target / smooth control are "
                            "not written; re-parsing gives a start-less segment or raises.",
    "startless-smooth-repeated": "T/t (S/s) repeated with no current point: the first T stores control None and "
                                    "the second reflects it (None.reflected_across).",
    "startless": "a leniently accepted path that does not begin with a move keeps a first segment with start "
                 "None; measuring/bounding it afterwards raises.",
    "lone-close": "'z' as the whole path (no moveto) is retained as Close(None, None); bbox() of it raises.",
    "arc-radii-%G-precision":
        "Arc.d() prints rx, ry and the rotation with '%G' (6 significant digits) while coordinates use "
        "'%.12G'; re-parsing therefore moves the arc by ~1e-6 relative (much more near a half turn, where "
        "the centre is an ill-conditioned function of the radii).",
    "exponent-trailing-zero-stripped":
        "Point.__str__ formats with '%.12G' and then strips trailing zeros whenever the text contains '.', "
        "also when the text is in exponent form: '1.01863406599E-10' becomes '1.01863406599E-1' "
        "(a factor 1e9 error). Hit by relative output of nearly coincident points.",
    "time-superlinear": "parse time per character grows with the input length (quadratic scan): each close "
                        "walks back over all earlier segments looking for the last Move.",
}


def explain(key):
    for k, v in EXPLAIN.items():
        if k in key:
            return v
    return ""


class Timeout(BaseException):
    pass


class time_limit:
    """with time_limit(s): ... raises Timeout inside the block after s seconds (main thread, POSIX only)"""

    def __init__(self, seconds):
        self.seconds = seconds
        self.armed = False

    def _fire(self, *a):
        raise Timeout()

    def __enter__(self):
        try:
            self.old = signal.signal(signal.SIGALRM, self._fire)
            signal.setitimer(signal.ITIMER_REAL, self.seconds)
            self.armed = True
        except (ValueError, AttributeError):
            self.armed = False
        return self

    def __exit__(self, *a):
        if self.armed:
            signal.setitimer(signal.ITIMER_REAL, 0)
            signal.signal(signal.SIGALRM, self.old)
        return False


class Agg:
    """failures aggregated by key: count + smallest witness (+ smallest witness of up to 6 named variants)"""

    def __init__(self):
        self.by = {}

    def add(self, key, witness, expected, got, size=None, variant=None):
        size = len(str(witness)) if size is None else size
        e = self.by.get(key)
        if e is None:
            e = self.by[key] = {"key": key, "count": 1, "input": witness, "expected": expected, "got": got,
                                "_size": size, "explanation": explain(key)}
        else:
            e["count"] += 1
            if size < e["_size"]:
                e.update(input=witness, expected=expected, got=got, _size=size)
        if variant is not None:
            vs = e.setdefault("variants", {})
            if variant in vs or len(vs) < 6:
                if variant not in vs or size < vs[variant][0]:
                    vs[variant] = (size, witness)

    def out(self):
        res = []
        for k in sorted(self.by):
            e = dict(self.by[k])
            e.pop("_size")
            if "variants" in e:
                e["variants"] = {v: w for v, (s, w) in sorted(e["variants"].items())}
            res.append(e)
        return res


# ---------------------------------------------------------------------------------------------------------
# comparison of a library path with oracle segments
# ---------------------------------------------------------------------------------------------------------

def _pt(p):
    if p is None:
        return None
    try:
        return (p.x, p.y)
    except AttributeError:
        return p


def lib_desc(seg):
    k = type(seg).__name__
    d = {"kind": k, "start": _pt(seg.start), "end": _pt(seg.end)}
    if k == "QuadraticBezier":
        d["control"] = _pt(seg.control)
    elif k == "CubicBezier":
        d["control1"] = _pt(seg.control1)
        d["control2"] = _pt(seg.control2)
    elif k == "Arc":
        d["_seg"] = seg
    return d


def lib_descs(p):
    return [lib_desc(s) for s in p]


def _isnum(v):
    return isinstance(v, (int, float)) and not isinstance(v, bool) and math.isfinite(v)


def near(a, b, tol):
    if a is None or b is None:
        return a is None and b is None
    for u, v in zip(a, b):
        if not (_isnum(u) and _isnum(v)):
            return False
        if abs(u - v) > tol * max(1.0, abs(u), abs(v)):
            return False
    return True


def show(d):
    return {k: v for k, v in d.items() if not k.startswith("_") and k not in ("occ",)}


def compare_with_oracle(lib, ora, tol=1e-9, lenient=False):
    """None or (key, index, expected, got); lenient: do not judge what C01 judges separately (first control of
    smooth commands, interior of zero-radius arcs)"""
    if len(lib) != len(ora) or any(a["kind"] != b["kind"] for a, b in zip(lib, ora)):
        return ("segment-kinds-differ", None, [o["kind"] for o in ora], [a["kind"] for a in lib])
    for i, (a, o) in enumerate(zip(lib, ora)):
        k = o["kind"]
        if not near(a["start"], o["start"], tol):
            return ("segment-start-mismatch", i, show(o), show(a))
        if not near(a["end"], o["end"], tol):
            return ("end-mismatch-%s" % k, i, show(o), show(a))
        for c in ("control", "control1", "control2"):
            if lenient and o.get("cmd", "?") in "SsTt" and c in ("control", "control1"):
                continue
            if c in o and not near(a[c], o[c], tol):
                cmd = o.get("cmd", "?")
                prev = ora[i - 1].get("cmd", "?") if i else "?"
                if (cmd in "Ss" and prev in "QqTt") or (cmd in "Tt" and prev in "CcSs"):
                    key = "smooth-after-other-degree"
                elif cmd in "SsTt":
                    key = "smooth-control-mismatch"
                else:
                    key = "control-mismatch-%s" % k
                return (key, i, show(o), show(a))
        if k == "Arc":
            try:
                cen = G.arc_center(o)
            except (OverflowError, ZeroDivisionError):
                # the oracle's plain F.6.5 formulas overflow for lengths beyond 1e154: no reference geometry to
                # compare with (endpoints and kinds have been compared above)
                continue
            scale = max(1.0, abs(o["start"][0]), abs(o["start"][1]), abs(o["end"][0]), abs(o["end"][1]))
            t_arc = tol
            if lenient and math.hypot(o["start"][0] - o["end"][0], o["start"][1] - o["end"][1]) <= 1e-11 * scale:
                # endpoints closer than the library's point tolerance (1e-12): it draws nothing where the exact rule draws
                # the whole ellipse; which of the two is a matter of C05 (coincident endpoints), not of what was retained
                continue
            if lenient and (cen is None or max(cen["rx"], cen["ry"]) > 1e9 * min(cen["rx"], cen["ry"], scale)
                            or abs(o["rotation"]) > 1e6):
                # zero radius: judged by C01; radii beyond 1e9 x the rest of the figure: the centre form
                # (centre + 15.5 == centre at 1e25) cannot represent the arc in double precision; rotations
                # beyond 1e6 degrees: cos(radians(1e30)) has no significant digits
                continue
            if cen is not None:
                scale = max(scale, cen["rx"], cen["ry"])
                if cen["lam"] > 1.0 - 1e-10:
                    # half-turn / scaled-up radii: the centre is sqrt(rounding noise) accurate at best
                    t_arc = 1e-6
                lo_r = min(cen["rx"], cen["ry"])
                if lo_r > 0:
                    # eccentric ellipse through two fixed endpoints: rounding is amplified by the axis ratio (this
                    # comparison only has to recognise *which* segments were retained; arc accuracy is C05's business)
                    t_arc = min(1e-3, t_arc * max(1.0, max(cen["rx"], cen["ry"]) / lo_r))
            for t in (0.25, 0.5, 0.75):
                e = G.arc_point(o, t, cen)
                try:
                    g = _pt(a["_seg"].point(t))
                except Exception as ex:  # the code under test failed: its own failure class
                    return ("arc-point-%s" % type(ex).__name__, i, show(o), repr(ex))
                if not (abs(e[0] - g[0]) <= t_arc * scale and abs(e[1] - g[1]) <= t_arc * scale):
                    key = "arc-zero-radius-not-line" if cen is None else "arc-geometry-mismatch"
                    return (key, i, {"t": t, "point": e, "arc": show(o)}, {"t": t, "point": g})
    return None


def check_chain(lib, tol=1e-9):
    sub = None
    for i, a in enumerate(lib):
        if i and not near(a["start"], lib[i - 1]["end"], tol):
            return ("segment-start-not-previous-end", i, lib[i - 1]["end"], a["start"])
        if a["kind"] == "Move":
            sub = a["end"]
        elif sub is None:
            sub = a["start"]
        if a["kind"] == "Close" and not near(a["end"], sub, tol):
            return ("close-not-at-subpath-start", i, sub, a["end"])
    return None


def same_paths(pa, pb, tol=1e-9):
    """library path vs library path, segment-wise (kinds + defining points + arc samples)"""
    if len(pa) != len(pb):
        return "lengths %d != %d" % (len(pa), len(pb))
    for i, (x, y) in enumerate(zip(pa, pb)):
        if type(x) is not type(y):
            return "segment %d: %s != %s" % (i, type(x).__name__, type(y).__name__)
        dx, dy = lib_desc(x), lib_desc(y)
        for c in ("start", "end", "control", "control1", "control2"):
            if c in dx and not near(dx[c], dy[c], tol):
                return "segment %d %s: %r != %r" % (i, c, dx[c], dy[c])
        if dx["kind"] == "Arc":
            for t in (0.25, 0.5, 0.75):
                if not near(_pt(x.point(t)), _pt(y.point(t)), 1e-7):
                    return "segment %d arc point(%s): %r != %r" % (i, t, _pt(x.point(t)), _pt(y.point(t)))
    return None


# ---------------------------------------------------------------------------------------------------------
# rendering of abstract command lists
# ---------------------------------------------------------------------------------------------------------
# abstract command: (letter, groups, zclose); group = list of tokens; token = text (number) or ("f", "0"|"1")

def nosep_legal(a, b):
    """may number text b follow number text a with no separator (greedy lexing, SVG 2 9.3.9)?"""
    if b[0] in "+-":
        return True
    if b[0] == ".":
        return "." in a or "e" in a or "E" in a
    return False


def render(cmds, sepf, lead=""):
    """sepf(kind, a, b) -> separator text; kind in
    'cmd' (before a command letter), 'first' (letter -> first operand), 'nn' (number -> number),
    'nf' (number -> flag), 'ff' (flag -> flag), 'fn' (flag -> number), 'z' (operand -> completing z)"""
    out = [lead]
    first_cmd = True
    for letter, groups, zc in cmds:
        if not first_cmd:
            out.append(sepf("cmd", None, letter))
        first_cmd = False
        out.append(letter)
        prev = None
        for g in groups:
            for tok in g:
                isflag = isinstance(tok, tuple)
                text = tok[1] if isflag else tok
                if prev is None:
                    out.append(sepf("first", letter, text))
                else:
                    pflag = isinstance(prev, tuple)
                    kind = ("ff" if isflag else "fn") if pflag else ("nf" if isflag else "nn")
                    ptext = prev[1] if pflag else prev
                    s = sepf(kind, ptext, text)
                    if s == "" and kind == "nn" and not nosep_legal(ptext, text):
                        s = " "
                    if s == "" and kind == "nf":
                        s = " "
                    out.append(s)
                out.append(text)
                prev = tok
        if zc:
            out.append(sepf("z", None, None))
            out.append("z" if letter.islower() else "Z")
    return "".join(out)


def intended(cmds):
    """the numbers the oracle reader must recover: list of (letter-as-interpreted, args, zclose)"""
    out = []
    for letter, groups, zc in cmds:
        for gi, g in enumerate(groups):
            L = letter
            if letter in "Mm" and gi > 0:
                L = "L" if letter == "M" else "l"
            args = tuple(int(t[1]) if isinstance(t, tuple) else float(t) for t in g)
            out.append((L, args, bool(zc and gi == len(groups) - 1)))
        if not groups:
            out.append((letter, (), bool(zc)))
    return out


def oracle_items_checked(s, cmds):
    """parse with the oracle and insist it recovers the intended structure (generator/oracle cross-check)"""
    items = G.parse(s)
    got = [(it["cmd"], it["args"], it["zclose"]) for it in items]
    want = intended(cmds)
    if got != want:
        raise AssertionError("generator/oracle disagreement on %r: intended %r, oracle read %r" % (s, want, got))
    return items


# ---------------------------------------------------------------------------------------------------------
# exhaustive family: letters x spelling-class pairs x separators x group counts ; packed arc flags
# ---------------------------------------------------------------------------------------------------------
SPELL = [
    ("int", "7"), ("zero", "0"), ("dec", "12.25"), ("plus", "+3"), ("minus", "-4"), ("minusdec", "-4.5"),
    ("dot", ".5"), ("minusdot", "-.75"), ("plusdot", "+.25"), ("exp", "2e1"), ("expneg", "5E-1"),
    ("expplus", "-2.5e+1"), ("dotexp", ".5e1"), ("expdot", "1e-3"),
]
SEPS = [("none", ""), ("comma", ","), ("blank", " "), ("commablank", " , "), ("nltab", "\n\t"), ("cr", "\r"),
        ("formfeed", "\x0c"), ("crlfcomma", "\r\n,\x0c")]       # all five wsp characters of the grammar occur


def exhaustive_strings(quick=True):
    """yield (string, cmds, adjacency-class key)"""
    for letter in LETTERS:
        U = letter.upper()
        pre = [] if U == "M" else [("M", [["10", "20"]], False)]
        if U == "Z":
            for lead in ("", " ", "\n"):
                for s in ("", " ", "\t"):
                    cmds = pre + [(letter, [], False)]
                    yield render(cmds, lambda k, a, b, s=s: s, lead), cmds, (letter, "z", repr(s))
            continue
        n = NNUM[U]
        maxg = 3 if U in "MLTHV" else 2
        for ng in range(1, maxg + 1):
            for ia, (ca, ta) in enumerate(SPELL):
                for ib, (cb, tb) in enumerate(SPELL):
                    for sn, sv in SEPS:
                        groups = []
                        j = 0
                        for _ in range(ng):
                            g = []
                            for k in range(n):
                                if U == "A" and k in (3, 4):
                                    g.append(("f", "01"[(k + ia + ib) % 2]))
                                else:
                                    g.append(ta if j % 2 == 0 else tb)
                                    j += 1
                            groups.append(g)
                        cmds = pre + [(letter, groups, False)]
                        firstsep = " " if (ia + ib) % 2 else ""

                        def sepf(kind, a, b, sv=sv, firstsep=firstsep):
                            if kind == "cmd":
                                return firstsep
                            if kind == "first":
                                return firstsep
                            if kind == "ff" or kind == "fn":
                                return sv
                            return sv

                        yield render(cmds, sepf), cmds, (letter, ca, cb, sn)
    # packed arc flags
    for letter in "Aa":
        for f1 in "01":
            for f2 in "01":
                for sff in ("", " ", ",", " , "):
                    for snf in (" ", ","):
                        for sfn in ("", " ", ","):
                            for cx, tx in SPELL:
                                for ng in (1, 2):
                                    g = ["25", "-15.5", "30", ("f", f1), ("f", f2), tx, "10"]
                                    cmds = [("M", [["10", "20"]], False), (letter, [list(g) for _ in range(ng)], False)]

                                    def sepf(kind, a, b, sff=sff, snf=snf, sfn=sfn):
                                        return {"cmd": " ", "first": "", "nn": " ", "nf": snf, "ff": sff, "fn": sfn}[kind]

                                    yield render(cmds, sepf), cmds, (letter, "flags", f1 + f2, sff, snf, sfn, cx)


# ---------------------------------------------------------------------------------------------------------
# random grammar strings
# ---------------------------------------------------------------------------------------------------------

def spell_number(rng, mag, nonneg=False):
    v = rng.uniform(0 if nonneg else -1.0, 1.0) * mag
    style = rng.randrange(7)
    if style == 0:
        t = "%d" % round(v) if mag >= 2 else "%.3f" % v
    elif style == 1:
        t = "%.*f" % (rng.randint(1, 4), v)
    elif style == 2:
        t = "%.*g" % (rng.randint(2, 9), v)
    elif style == 3:
        t = "%.*e" % (rng.randint(0, 4), v)
        if rng.random() < 0.5:
            t = t.replace("e", "E")
        if rng.random() < 0.5:
            t = re.sub(r"([eE][-+])0+(\d)", r"\1\2", t)
            if rng.random() < 0.5:
                t = t.replace("e+", "e").replace("E+", "E")
    elif style == 4:
        t = "%.*f" % (rng.randint(1, 3), v / max(mag, 1e-300) * 0.9)  # |v| < 1 : leading-dot spelling
        t = t.replace("0.", ".", 1) if t.startswith(("0.", "-0.")) else t
    elif style == 5:
        t = "%d" % rng.randint(-30 if not nonneg else 0, 30)
    else:
        t = "%.12g" % v
    if not t.startswith("-") and rng.random() < 0.12:
        t = "+" + t
    if nonneg and t.startswith("-"):
        t = t[1:]
    # never produce a trailing dot or a bare sign
    if t.endswith(".") or t in ("+", "-", ".", "-.", "+."):
        t = "1"
    return t


NNSEPS = [" ", " ", ",", ",", " , ", ", ", "\n", "\t ", "", "", "", "\r", "\x0c", " \x0c,\r\n"]


def random_sepf(rng):
    def sepf(kind, a, b):
        if kind == "cmd":
            return rng.choice(["", " ", " ", "\n", "  "])
        if kind == "first":
            return rng.choice(["", "", " ", "\t"])
        if kind == "nn":
            return rng.choice(NNSEPS)
        if kind == "nf":
            return rng.choice([" ", ",", " , ", "\n"])
        if kind in ("ff", "fn"):
            return rng.choice(["", "", " ", ",", ", "])
        if kind == "z":
            return rng.choice(["", " ", " "])
        return " "
    return sepf


def rand_group(rng, U, letter, mag, arcmode=None, zero_radius=True):
    if U == "A":
        dx, dy = spell_number(rng, mag), spell_number(rng, mag)
        chord = math.hypot(float(dx), float(dy)) if letter == "a" else mag
        mode = arcmode or rng.choice(["gen", "gen", "small", "half", "rand", "zero" if zero_radius else "rand"])
        if mode == "gen":
            rx = "%.6g" % (chord * rng.uniform(0.6, 3))
            ry = "%.6g" % (chord * rng.uniform(0.6, 3))
        elif mode == "small":
            rx = "%.4g" % (chord * rng.uniform(0.01, 0.4))
            ry = "%.4g" % (chord * rng.uniform(0.01, 0.4))
        elif mode == "half":
            rx = ry = "%.12g" % (chord / 2.0)
        elif mode == "zero":
            rx, ry = ("0", spell_number(rng, mag, True)) if rng.random() < 0.5 else (spell_number(rng, mag, True), "0")
        else:
            rx, ry = spell_number(rng, mag), spell_number(rng, mag)  # may be negative: |r| is used
        if float(rx) == 0 and mode != "zero":
            rx = "1"
        if float(ry) == 0 and mode != "zero":
            ry = "1"
        rot = rng.choice(["0", "30", "-45", "90", "%.3f" % rng.uniform(-400, 400), "1e2"])
        return [rx, ry, rot, ("f", rng.choice("01")), ("f", rng.choice("01")), dx, dy]
    return [spell_number(rng, mag) for _ in range(NNUM[U])]


def rand_cmd(rng, letter, mag, allow_zc=True, arcmode=None, zero_radius=True):
    U = letter.upper()
    if U == "Z":
        return (letter, [], False)
    ng = 1
    while ng < 4 and rng.random() < 0.3:
        ng += 1
    groups = [rand_group(rng, U, letter, mag, arcmode, zero_radius) for _ in range(ng)]
    zc = False
    if allow_zc and U not in "MHV" and rng.random() < 0.08:
        zc = True
        groups[-1] = groups[-1][:-2]
        if U in "LT" and ng > 1:
            # "L 1,2 z" is lineto + ordinary closepath: keep a single, empty group for the completing form
            groups = [[]]
    return (letter, groups, zc)


def random_cmds(rng, mag, n, first=None, pair=None, allow_zc=True, arcmode=None, zero_radius=True):
    cmds = []
    if pair is not None:
        a, b = pair
        if a in "Mm":
            cmds.append(rand_cmd(rng, a, mag))
        else:
            cmds.append(rand_cmd(rng, rng.choice("Mm"), mag))
            cmds.append(rand_cmd(rng, a, mag, allow_zc, arcmode, zero_radius))
        cmds.append(rand_cmd(rng, b, mag, allow_zc, arcmode, zero_radius))
    else:
        cmds.append(rand_cmd(rng, first or rng.choice("MMm"), mag))
    while len(cmds) < n:
        cmds.append(rand_cmd(rng, rng.choice(LETTERS + "zZCcSsQqTt"), mag, allow_zc, arcmode, zero_radius))
    return cmds


def cmd_pairs(cmds):
    seq = []
    for letter, groups, zc in cmds:
        seq.append(letter)
        if zc:
            seq.append("z*")  # segment-completing close
    return set(zip(seq, seq[1:])) | ({("^", seq[0])} if seq else set())


# ---------------------------------------------------------------------------------------------------------
# (1) C01 + C17
# ---------------------------------------------------------------------------------------------------------

def c01_one(mod, s, items=None):
    """None or (key, index, expected, got) for one grammar-conforming string"""
    if items is None:
        items = G.parse(s)
    ora = G.interp(items)
    try:
        p = mod.Path(s)
    except Exception as e:
        return ("valid-string-raises-%s" % type(e).__name__, None, "a path of %d segments" % len(ora), repr(e))
    lib = lib_descs(p)
    r = compare_with_oracle(lib, ora)
    if r is None:
        r = check_chain(lib)
    return r


def c01_variant(s, r):
    """sub-class of a C01 failure (which command after which), for a witness per variant"""
    if r is None or r[1] is None:
        return None
    try:
        ora = G.interp(G.parse(s))
    except ValueError:
        return None
    i = r[1]
    cmd = ora[i].get("cmd", "?")
    prev = ora[i - 1].get("cmd", "?") if i else "^"
    if r[0] == "smooth-after-other-degree":
        return "%s-after-%s" % (cmd.upper(), prev.upper())
    if r[0] == "arc-zero-radius-not-line":
        return "rx-zero" if ora[i]["rx"] == 0 else "ry-zero"
    return None


def split_pieces(s, cuts):
    pieces = []
    last = 0
    for c in cuts:
        pieces.append(s[last:c])
        last = c
    pieces.append(s[last:])
    return pieces


def c17_apply(mod, pieces, method):
    if method == "add":
        p = mod.Path(pieces[0])
        for b in pieces[1:]:
            p = p + b
        return p
    if method == "iadd":
        p = mod.Path(pieces[0])
        for b in pieces[1:]:
            p += b
        return p
    if method == "parse":
        p = mod.Path(pieces[0])
        for b in pieces[1:]:
            p.parse(b)
        return p
    if method == "segment":
        p0 = mod.Path(pieces[0])
        p = p0[len(p0) - 1]
        for b in pieces[1:]:
            p = p + b
        return p
    raise ValueError(method)


def _close_before_move(text):
    m = re.search(r"[MmZz]", text)
    return m is not None and m.group(0) in "Zz"


def c17_methods(mod, pieces):
    methods = ["add", "iadd", "parse"]
    try:
        n0 = len(mod.Path(pieces[0]))
    except Exception:
        return []
    if n0 == 1:
        methods.append("segment")
    elif n0 == 2 and not _close_before_move(" ".join(pieces[1:])):
        # a drawing segment detached from its Move: where a later close returns to is not defined by SVG
        # (no moveto in the path), so only data without a close before the next move is judged
        methods.append("segment")
    return methods


def c17_one(mod, pieces, method, ref=None):
    """None or (key, expected, got)"""
    whole = " ".join(pieces)
    if ref is None:
        try:
            ref = mod.Path(whole)
        except Exception:
            return None  # reported by C01
    try:
        p = c17_apply(mod, pieces, method)
    except Exception as e:
        return ("continuation-%s-raises-%s" % (method, type(e).__name__), "Path(%r)" % whole, repr(e))
    if method == "segment":
        n0 = len(mod.Path(pieces[0]))
        d = same_paths(list(p), list(ref)[n0 - 1:])
    else:
        d = same_paths(list(p), list(ref))
    if d is not None:
        return ("continuation-%s-differs" % method, "segments of Path(%r)" % whole, d)
    return None


def canonical_items(items, simple):
    """one explicit command per item, plain separators; simple: numbers rounded to integers"""
    parts = []
    for it in items:
        c = it["cmd"]
        a = it["args"]
        if simple:
            txt = [("%d" % round(v)) for v in a]
        else:
            txt = [("%d" % v) if isinstance(v, int) else ("%.12g" % v) for v in a]
        if c in "Aa" and len(a) >= 5:
            txt[3], txt[4] = "%d" % a[3], "%d" % a[4]
        if c in "Aa" and simple:
            for k in (0, 1):
                if a[k] != 0 and txt[k] in ("0", "-0"):
                    txt[k] = "1"
        parts.append(c + " " + " ".join(txt) + ((" " if txt else "") + "z" if it["zclose"] else ""))
    return [x.strip() for x in parts]


def minimise_valid(s, pred, budget=60):
    """smallest grammar-valid variant of s for which pred stays true: canonical respelling (integers if that
    keeps the failure), then greedy removal of single command groups"""
    try:
        items = G.parse(s)
    except ValueError:
        return s
    parts = None
    for simple in (True, False):
        cand = canonical_items(items, simple)
        budget -= 1
        try:
            G.parse(" ".join(cand))
        except ValueError:
            continue
        if pred(" ".join(cand)):
            parts = cand
            break
    if parts is None:
        return s
    changed = True
    while changed and budget > 0:
        changed = False
        for i in range(len(parts) - 1, -1, -1):
            cand = parts[:i] + parts[i + 1:]
            if not cand:
                continue
            cs = " ".join(cand)
            budget -= 1
            try:
                G.parse(cs)
            except ValueError:
                continue
            if pred(cs):
                parts = cand
                changed = True
            if budget <= 0:
                break
    return " ".join(parts)


def replay_c01(mod, witness):
    if "pieces" in witness:
        r = c17_one(mod, witness["pieces"], witness["method"])
        return {"reproduced": r is not None, "detail": r}
    r = c01_one(mod, witness["s"])
    return {"reproduced": r is not None, "detail": r}


@bounded("C01/grammar_strings", props=["C01", "C17"], replay=replay_c01)
def run_c01(mod, tier, seed):
    rng = random.Random(seed)
    agg = Agg()
    evaluations = 0
    classes = set()
    pairs = set()
    samples = []
    splits_run = 0
    t0 = time.time()

    def one(s, cmds, do_split):
        nonlocal evaluations, splits_run
        items = oracle_items_checked(s, cmds)
        evaluations += 1
        r = c01_one(mod, s, items)
        if r is not None:
            key = r[0]
            if key not in agg.by or agg.by[key]["count"] < 3:
                w = minimise_valid(s, lambda c, key=key: (c01_one(mod, c) or (None,))[0] == key)
                r2 = c01_one(mod, w)
                agg.add(key, {"s": w}, r2[2], r2[3], size=len(w), variant=c01_variant(w, r2))
            else:
                var = c01_variant(s, r)
                vs = agg.by[key].get("variants", {})
                if var is not None and var not in vs and len(vs) < 6:
                    w = minimise_valid(s, lambda c, key=key, var=var: c01_variant(c, c01_one(mod, c)) == var
                                       and (c01_one(mod, c) or (None,))[0] == key)
                    r2 = c01_one(mod, w)
                    agg.add(key, {"s": w}, r2[2], r2[3], size=len(w), variant=var)
                else:
                    agg.by[key]["count"] += 1
        if do_split:
            bounds = G.command_boundaries(s)
            if bounds:
                cutsets = [[rng.choice(bounds)]]
                if len(bounds) >= 2 and do_split > 1:
                    cutsets.append(sorted(rng.sample(bounds, 2)))
                for cuts in cutsets:
                    pieces = split_pieces(s, cuts)
                    try:
                        ref = mod.Path(" ".join(pieces))
                    except Exception:
                        continue
                    for m in c17_methods(mod, pieces):
                        splits_run += 1
                        rr = c17_one(mod, pieces, m, ref)
                        if rr is not None:
                            agg.add(rr[0], {"pieces": pieces, "method": m}, rr[1], rr[2], size=len(s))

    # exhaustive part
    n_ex = 0
    for s, cmds, cls in exhaustive_strings(tier == "quick"):
        classes.add(cls)
        n_ex += 1
        one(s, cmds, 1 if n_ex % 10 == 0 else 0)
        if n_ex % 5000 == 1:
            samples.append(s)
    # a few hand-written strings (clear witnesses of the classic cases)
    for s in ("M0,0 Q1,2 3,0 S5,5 6,0", "M0,0 C1,2 3,4 5,0 T6,0", "M0,0 Q1,2 3,0 T5,0 S5,5 6,0", "M0,0 C1,2 3,4 5,0 S6,6 7,0 T8,0",
              "M0,0 L1,1 S5,5 6,0", "M0,0 L1,1 T6,0", "M0,0 L1,1 z S5,5 6,0", "M1,1 z T6,0", "M0,0 A5,5 0 0,1 5,5 S5,9 6,0",
              "m1,2 3,4 5,6", "M1,2 m3,4", "M0,0 L5,0 5,5 z l1,1", "M0,0 C1,2 3,4 z", "M0,0 h5 v5 z a5,5 0 0110,10"):
        items = G.parse(s)
        evaluations += 1
        r = c01_one(mod, s, items)
        if r is not None:
            agg.add(r[0], {"s": s}, r[2], r[3], size=len(s), variant=c01_variant(s, r))
    # seeded random part
    n_rand = 5000 if tier == "quick" else 50000
    done = 0
    allpairs = [(a, b) for a in LETTERS for b in LETTERS]
    rounds = 0
    while done < n_rand:
        if rounds < (5 if tier == "quick" else 40):
            todo = allpairs
            rounds += 1
        else:
            todo = [None] * 400
        for pr in todo:
            if done >= n_rand:
                break
            mag = rng.choice([1, 10, 100, 1000])
            cmds = random_cmds(rng, mag, rng.randint(2, 9), pair=pr)
            s = render(cmds, random_sepf(rng), rng.choice(["", "", " ", "\n"]))
            if rng.random() < 0.1:
                s += rng.choice([" ", "\n", "\t"])
            pairs |= cmd_pairs(cmds)
            one(s, cmds, 2)
            done += 1
            if done % 1000 == 1:
                samples.append(s)
    return {
        "evaluations": evaluations + splits_run,
        "strings": evaluations, "continuation_splits": splits_run,
        "distinct_nontrivial": len(classes) + len(pairs),
        "distinct_adjacency_classes": len(classes), "distinct_command_pairs": len(pairs),
        "rule": "exhaustive: 20 letters x 14x14 ordered pairs of number spellings (plain, zero, decimal, +/-, "
                "leading dot, exponent forms) alternated over all operands x 5 separators (none where greedy "
                "lexing allows, comma, blank, comma+blanks, newline+tab) x 1..2 (1..3 for M/L/T/H/V) operand "
                "groups, plus packed arc flags (4 flag values x 4 flag-flag x 2 number-flag x 3 flag-number "
                "separators x 14 spellings of x x 1..2 groups); random: seeded grammar-random strings of 2-9 "
                "commands forced through all 400 ordered command pairs (5 rounds) then free; each string is "
                "compared with the oracle interpretation (kinds, start/control/end rel 1e-9, arcs by 3 interior "
                "points, chaining, close target); C17: 1-3 command-boundary splits (2 and 3 pieces) x "
                "{Path+str, +=, parse, segment+str}. distinct = adjacency classes (letter, spelling a, "
                "spelling b, separator | flag packing) + ordered command pairs incl. '^' start and 'z*' "
                "segment-completing close",
        "bound": "%d exhaustive strings, %d random strings, %d continuation evaluations" % (n_ex, done, splits_run),
        "exhaustive": False,
        "failures": agg.out(),
        "samples": samples[:8],
        "seconds": round(time.time() - t0, 1),
    }


# ---------------------------------------------------------------------------------------------------------
# (2) C09 arbitrary strings
# ---------------------------------------------------------------------------------------------------------
TOKEN_RE = re.compile(r"[MmZzLlHhVvCcSsQqTtAa]|[-+]?(?:\d+\.?\d*|\.\d+)(?:[eE][-+]?\d+)?|[ \t\n\r\x0c]+|,|.", re.S)
XF = "rotate(30) scale(2,3)"


def _coords_of(seg):
    k = type(seg).__name__
    pts = [("start", seg.start), ("end", seg.end)]
    if k == "QuadraticBezier":
        pts.append(("control", seg.control))
    elif k == "CubicBezier":
        pts += [("control1", seg.control1), ("control2", seg.control2)]
    elif k == "Arc":
        pts += [("center", seg.center), ("prx", seg.prx), ("pry", seg.pry)]
    return pts


def finite_problem(p):
    """None or text naming the first non-real / non-finite coordinate"""
    for i, seg in enumerate(p):
        for name, q in _coords_of(seg):
            if q is None:
                if i == 0 and name == "start":
                    continue
                return "segment %d (%s) %s is None" % (i, type(seg).__name__, name)
            for v in (q.x, q.y):
                if not _isnum(v):
                    return "segment %d (%s) %s has coordinate %r" % (i, type(seg).__name__, name, v)
        if type(seg).__name__ == "Arc" and not _isnum(seg.sweep):
            return "segment %d Arc sweep %r" % (i, seg.sweep)
    return None


def _strict_candidates(s):
    items, err = G.parse_prefix(s)
    if err is None:
        return [G.interp(items)], "valid", None
    if err.ambiguous:
        return None, "ambiguous-zclose", err
    if err.overflow:
        return None, "overflow", err
    acc = []
    if err.msg.startswith("path data must begin"):
        acc.append([])
        items2, err2 = G.parse_prefix(s, require_move=False)
        if err2 is not None and (err2.ambiguous or err2.overflow):
            return None, "ambiguous-zclose" if err2.ambiguous else "overflow", err
        acc.append(G.interp(items2, lenient_start=True))
        if err2 is not None and err2.occ_in_error is not None:
            acc.append(G.interp([it for it in items2 if it["occ"] != err2.occ_in_error], lenient_start=True))
        err.lenient_error = err2
        return acc, "no-leading-move", err
    acc.append(G.interp(items))
    if err.occ_in_error is not None:
        acc.append(G.interp([it for it in items if it["occ"] != err.occ_in_error]))
    return acc, "error", err


def expected_prefixes(s):
    """(strict candidates, category, oracle error, comma-lenient candidates)

    Definition used: the oracle reader consumes s group by group (a group = one command letter with one
    full operand set, or one implicit repetition) until the first position where the SVG 2 EBNF cannot
    continue. 'Render up to the error' (SVG 2 9.5.4) is ambiguous between (A1) keeping every complete group
    before the error and (A2) dropping the whole command (letter + all its repetitions) that contains the
    error; both are accepted. A string that does not begin with a moveto is in error from its first command:
    accepted are the empty path and the lenient reading in which the current point is undefined (first
    segment start None, relative = absolute) for L/C/Q only. Not judged for the prefix: closepath after fewer
    than n-1 pairs (EBNF-legal, undefined in prose) and numbers that overflow the float range. The second
    candidate list is the same reading of s with every comma replaced by a blank (a parser that treats
    commas as white space accepts a superset of the grammar) and/or with command letters that have no operand
    at all removed (a parser that skips empty commands); matching only that list is counted as 'lenient',
    not as a failure.
    """
    acc, cat, err = _strict_candidates(s)
    acc2 = None
    if cat in ("error", "no-leading-move"):
        acc2 = []
        seen = set()
        todo = [s]
        for _ in range(6):  # a few rounds of the two lenient rewritings
            nxt = []
            for t in todo:
                a_, c_, e_ = _strict_candidates(t)
                if a_ is not None:
                    acc2.extend(a_)
                e2 = getattr(e_, "lenient_error", e_) if e_ is not None else None
                if e2 is not None and err is not None and t != s:
                    err.__dict__.setdefault("rewritten_errors", []).append((t, e2))
                cands = []
                if "," in t:
                    cands.append(t.replace(",", " "))
                if e2 is not None and e2.bare and e2.cmd_pos is not None:
                    # a command letter without any operand: a lenient parser may skip it
                    cands.append(t[:e2.cmd_pos] + " " + t[e2.cmd_pos + 1:])
                for c in cands:
                    if c not in seen:
                        seen.add(c)
                        nxt.append(c)
            todo = nxt
            if not todo:
                break
    return acc, cat, err, acc2


def err_command(s, err):
    """letter of the command in which the oracle found the error (the next letter when it lies between commands)"""
    if err is None:
        return None
    if err.cmd is not None:
        return err.cmd
    m = re.match(r"\s*([A-Za-z])", s[err.pos:])
    return m.group(1) if m else None


def builder_callback(exc):
    """name of the Path builder callback (first frame below SVGLexicalParser.parse) in which exc was raised"""
    tb = exc.__traceback__
    names = []
    while tb is not None:
        code = tb.tb_frame.f_code
        if code.co_filename.endswith("svgelements.py"):
            names.append(code.co_name)
        tb = tb.tb_next
    # names: [..., 'parse' (Path), 'parse' (lexer), callback, ...]
    idx = [i for i, n in enumerate(names) if n == "parse"]
    if idx and idx[-1] + 1 < len(names):
        return names[idx[-1] + 1]
    return "lexer" if idx else (names[-1] if names else "unknown")


def c09_exception_key(p, exc):
    cb = builder_callback(exc)
    e = type(exc).__name__
    nocur = len(p) == 0 or p[-1].end is None
    if cb in ("horizontal", "vertical"):
        if e == "AttributeError" and nocur:
            return "hv-no-current-point-AttributeError"
        return "%s-without-number-%s" % (cb[0], e)
    if cb == "arc":
        return ("arc-no-current-point-%s" if nocur else "arc-incomplete-%s") % e
    if cb in ("smooth_quad", "smooth_cubic") and len(p) and type(p[0]).__name__ != "Move":
        return "startless-smooth-repeated-%s" % e
    if cb.startswith("_"):
        cb = "lexer" + cb
    return "%s-%s%s" % (cb, "no-current-point-" if nocur else "", e)


def c09_classify(s, cat, err, what, detail=None):
    """stable key for the non-exception failures of C09"""
    letter = err_command(s, err) if err is not None else None
    if what == "nonfinite":
        if "inf" in detail or "nan" in detail:
            return "number-overflow-inf-coordinate"
        if letter and letter in "HhVv" and err is not None and "number missing" in err.msg and "(Line)" in detail:
            return "%s-without-number-None-coordinate" % letter
        if cat in ("no-leading-move", "ambiguous-zclose") or re.match(r"[\s,]*[^Mm\s,]", s):
            if "control" in detail:
                return "startless-smooth-None-control"
            return "close-without-subpath-None-coordinate"
        return "None-coordinate-%s" % (letter or cat)
    if what == "retained":
        if err is not None and getattr(err, "lenient_error", None) is not None:
            err = err.lenient_error
            letter = err_command(s, err)
        for t2, e2 in [(s, err)] + list(getattr(err, "rewritten_errors", []) if err is not None else []):
            if e2 is not None and e2.cmd is not None and e2.cmd in "Aa" and "flag" in e2.msg:
                return "arc-bad-flag-spurious-segment"
        if letter and letter in "Aa" and err is not None and "argument" in err.msg:
            return "arc-incomplete-spurious-segment"
        if err is not None and err.occ_in_error is None and re.match(r"[\s,]*[-+.0-9]", s[err.pos:]):
            prev = s[:err.pos].rstrip(" \t\n\r\x0c,")
            if prev[-1:] in "Zz" and prev[-1:]:
                return "close-followed-by-number-dropped"
        return "retained-differs-%s-%s" % (letter or "none", cat)
    if what == "postop":
        if cat in ("no-leading-move", "ambiguous-zclose"):
            m = re.match(r"[\s,]*([A-Za-z])", s)
            first = m.group(1) if m else "?"
            if first in "Zz":
                return "lone-close-%s" % detail
            return "startless-%s-%s" % ("curve" if first in "CcQqSsTt" else first, detail)
        return "postop-%s" % detail
    return "%s-%s" % (what, cat)


def c09_one(mod, s, postops=True):
    """list of (key, expected, got) for one arbitrary string"""
    out = []
    acc, cat, err, acc2 = expected_prefixes(s)
    p = mod.Path()
    raised = None
    try:
        with time_limit(10 + len(s) * 1e-4):
            p.parse(s)
    except Timeout:
        return [("parse-timeout", "parse terminates promptly", "no result after %.0f s" % (10 + len(s) * 1e-4))]
    except ValueError as e:
        raised = e
    except Exception as e:
        out.append((c09_exception_key(p, e), "ValueError or a path", "%s: %s" % (type(e).__name__, e)))
        raised = e
    # the constructor form must behave the same way
    try:
        p2 = mod.Path(s)
        if isinstance(raised, ValueError):
            out.append(("constructor-differs-from-parse", "ValueError like parse()", "returned %r" % p2))
    except ValueError:
        if raised is None:
            out.append(("constructor-differs-from-parse", "a path like parse()", "ValueError"))
    except Exception as e:
        if raised is None or isinstance(raised, ValueError):
            out.append(("constructor-" + c09_exception_key(p, e), "ValueError or a path",
                        "%s: %s" % (type(e).__name__, e)))
    out_of_range = isinstance(raised, ValueError) and "out of range" in str(raised)
    if cat == "valid" and isinstance(raised, ValueError):
        # an arc whose lengths differ by more than ~1e150 (or overflow when combined) has no centre form in double
        # precision: the library says so with its own message; that class is kept apart from any other rejection
        out.append(("arc-out-of-double-range-rejected" if out_of_range else "valid-string-rejected", "a path",
                    "ValueError%s" % (": " + str(raised) if out_of_range else "")))
    fin = finite_problem(p)
    if fin is not None:
        out.append((c09_classify(s, cat, err, "nonfinite", fin), "every retained coordinate a finite real number", fin))
    # retained segments
    if acc is not None and fin is None and (raised is None or isinstance(raised, ValueError)) and not (
            out_of_range and cat == "valid"):
        lib = lib_descs(p)
        ok = any(compare_with_oracle(lib, cand, lenient=True) is None for cand in acc)
        if not ok:
            soft = acc2 is not None and any(compare_with_oracle(lib, cand, lenient=True) is None for cand in acc2)
            if not soft and raised is None:
                # returned normally with more than the valid prefix: a lenient superset of the grammar
                soft = any(len(lib) > len(cand) and compare_with_oracle(lib[:len(cand)], cand, lenient=True) is None
                           for cand in acc)
            if soft:
                out.append(("~lenient", None, None))  # counted, not a failure
            else:
                out.append((c09_classify(s, cat, err, "retained"),
                            {"retained_kinds_any_of": [[g["kind"] for g in c] for c in acc],
                             "oracle_error": str(err) if err else None},
                            {"raised": type(raised).__name__ if raised else None,
                             "retained": [show(a) for a in lib][-4:]}))
    # later operations must not raise
    if postops and (raised is None or isinstance(raised, ValueError)) and fin is None:
        if callable(postops):
            sig = (tuple(type(x).__name__ for x in p), len(p) > 0 and p[0].start is None, cat)
            postops = postops(sig)
    if postops and (raised is None or isinstance(raised, ValueError)) and fin is None:
        # length(error=1e-3) is an ABSOLUTE error bound: it cannot be met on astronomically large curves
        # (e.g. a valid arc with rx = 1e25 subdivides for hours), so length() is only called on paths whose
        # coordinates, arc centres and radii stay below 1e6
        big = path_magnitude(p, True) > 1e6
        ops = [("d", lambda: p.d()), ("d-relative", lambda: p.d(relative=True)), ("bbox", lambda: p.bbox()),
               ("length", lambda: p.length(error=1e-3, min_depth=2)),
               ("transform", lambda: abs(p * mod.Matrix(XF)))]
        for name, f in ops:
            if big and name == "length":
                continue
            try:
                with time_limit(10):
                    f()
            except Timeout:
                out.append(("postop-%s-timeout" % name, "%s() returns promptly" % name, "no result after 10 s"))
                break
            except Exception as e:
                if name == "bbox" and len(p) == 0:
                    continue
                out.append((c09_classify(s, cat, err, "postop", "%s-%s" % (name, type(e).__name__)),
                            "%s() does not raise" % name, "%s: %s" % (type(e).__name__, e)))
                break
    return out


def tokens_of(s):
    return TOKEN_RE.findall(s)


def minimise_tokens(s, pred, budget=120):
    """ddmin over tokens: remove chunks of halving size while pred stays true"""
    toks = tokens_of(s)
    if len(toks) > 400:
        return s
    size = max(1, len(toks) // 2)
    while size >= 1 and budget > 0:
        i = 0
        removed = False
        while i < len(toks) and budget > 0:
            cand = toks[:i] + toks[i + size:]
            budget -= 1
            if cand and pred("".join(cand)):
                toks = cand
                removed = True
            else:
                i += size
        if size == 1 and not removed:
            break
        size = size // 2 if size > 1 else (1 if removed else 0)
    return "".join(toks)


SPECIAL_C09 = [
    "t 1,1 2,2", "T 1,1 2,2", "t 1,1 t 2,2", "s 1,1 2,2 3,3 4,4", "S 1,1 2,2 S 3,3 4,4", "L 1,1 T 2,2", "Q 1,1 2,2 T 3,3",
    "M0,0 A1z", "M0,0 A 1 2 z", "M0,0 A 1 2 3 z", "M0,0 A 1 2 3 0 z", "M0,0 a1z", "M0,0 a 1 2 3 0 z",
    "", " ", ",", "z", "Z", "zz", "M", "m", "M 1", "M 1,", "M 1,2,", "M,1,2", "M 1,,2", "M 1 2 3", "M0,0 z 5", "M0,0 L5,5 5,0 z 5 5",
    "M0,0 z z 1", "M0,0 Z1,1", "M 1e999,0 L 1,1", "M0,0 L 1e400 5", "M 0,0 L 1e-999,1", "M0,0 L 5,5 . 5", "M0,0 L 5 5.",
    "M0,0 L 5. 5", "M0,0 L 5e 5", "M0,0 L 5e+ 5", "M0,0 L +-5 5", "M0,0 L --5 5", "M0,0 L 5,5 L", "M0,0 L 0x10 5",
    "M0,0 L 1_0 5", "M0,0 L nan nan", "M0,0 L inf 5", "M0,0 L Infinity 5", "M0,0 L 1,1 #", "M0,0 L 1,1 B 2,2",
    "M0,0 L 1,1 R 2,2", "M0,0 L 1,1; L 2,2", "M0,0 L (1,1)", "M0,0 L 1,1 \x00 L 2,2", "M0,0 L 1,1\x0bL 2,2",
    "M0,0 L 1,1\x1cL 2,2", "M0,0 L 1,1\x85L 2,2", "M0,0 L 1,1\u00a0L 2,2", "M0,0 L 1,1\u2003L 2,2", "M0,0 L 1,1\u3000L 2,2",
    "M0,0 L \uff11,\uff11", "M0,0 L \u0663,\u0663", "M0,0 L \u00b2,\u00b2", "M0,0 L 1,1 \u2212 5", "M0,0 L \u22125,5",
    "\ufeffM0,0 L1,1", "M0,0 L1,1\ufeff", "M0,0 \u212a 1,1", "M0,0 \u0131 1,1", "\u041c0,0 L1,1", "M0,0 L1,1 \U0001f600",
    "M0,0 L1\u200b,1", "M0,0 L1,1 \ud800", "M0,0\x7fL1,1", "M0,0 A 1 1 0 2 0 5 5", "M0,0 A 1 1 0 0 2 5 5", "M0,0 A 1 1 0 -1 0 5 5",
    "M0,0 A 1 1 0 0.5 0 5 5", "M0,0 A 1 1 0 1.0 1 5 5", "M0,0 A 1 1 0 00 5 5", "M0,0 A 1 1 0 011 5 5", "M0,0 A 1 1 0 1e0 1 5 5",
    "M0,0 A 1 1 0 +1 1 5 5", "M0,0 A 1 1 0 true 1 5 5", "M0,0 a 1 1 0 2 0 5 5", "M0,0 a 1 1 0 0 2 5 5", "M0,0 a 1 1 0 0 0.5 5 5",
    "M0,0 a 1 1 0 1 1 5 5 1 1 0 3 1 5 5", "M0,0 A 1 1 0 0 0 5 5 A", "M0,0 A 1 1 0 0 0 5 5 1", "M0,0 A 1 1 0 0 0 5", "M0,0 a 1",
    "M0,0 a 1 1", "M0,0 a 1 1 0", "M0,0 a 1 1 0 1", "M0,0 a 1 1 0 1 1", "M0,0 a 1 1 0 1 1 5", "M0,0 a", "M0,0 A",
    "M 5,5 L 10,10 C 1,2 z", "M 5,5 L 10,10 C z", "M 5,5 Q z", "M 5,5 S z", "M5,5 A 1 1 0 z", "M5,5 A 1 1 z", "M5,5 A z",
    "M5,5 L 6,6 z z z", "M5,5 z m 1,1 z l 1,1", "M5,5 L z 1,1", "M5,5 L 1,1 z 1,1", "M5,5 C 1,1 2,2 3,3 z 4,4",
    "M5,5 c 1,1 2,2 z 3,3 4,4 5,5", "M5,5 H 1 z 2", "M5,5 l 1,1 Z1,1", "m", "m 1", "l", "L", "l 5,5", "L 5,5", "L 5,5 z",
    "c 1,1 2,2 3,3", "C 1,1 2,2 3,3", "q 1,1 2,2", "Q 1,1 2,2", "s 1,1 2,2", "S 1,1 2,2", "t 1,1", "T 1,1", "h 5", "H 5", "v 5",
    "V 5", "h", "H", "v", "V", "a 1 1 0 0 0 5 5", "A 1 1 0 0 0 5 5", "a 1", "A 1 1 0 0 0 z", "z l 1,1", "Z M 1,1 l 1,1",
    "L 1,1 M 2,2 z", "l 1,1 2,2 z", "1,1 L 2,2", ", M 1,1", "M1,1,L2,2", "M1,1L2,2,", "M1,1 L,2,2", "M1,1 L2,2,z",
]


def c09_family(rng, tier):
    """yield (string, family-tag)"""
    for s in SPECIAL_C09:
        yield s, "special"
    # every command lacking arguments, after a move and alone
    for letter in LETTERS:
        U = letter.upper()
        n = NNUM[U]
        nums = ["3", "4.5", "-2", ".5", "1e1", "7", "8"]
        for pre in ("M0,0 ", "M 1,2 L 3,4 ", "", "M0,0 z ", "M0,0 Q1,2 3,4 ", "M0,0 C1,2 3,4 5,6"):
            for k in range(0, n + 1):
                ops = nums[:k]
                if U == "A" and k > 3:
                    ops = nums[:3] + ["0", "1"][:k - 3] + (nums[5:5 + k - 5] if k > 5 else [])
                yield pre + letter + " " + " ".join(ops), "args-%s-%d" % (letter, k)
                if k:
                    yield pre + letter + ",".join(ops) + " " + letter, "args-%s-%d-again" % (letter, k)
    # mutated grammar strings
    nbase = 110 if tier == "quick" else 1500
    bases = []
    ex = list(exhaustive_strings(True))
    for _ in range(nbase // 3):
        bases.append(ex[rng.randrange(len(ex))][0])
    while len(bases) < nbase:
        cmds = random_cmds(rng, rng.choice([1, 10, 100]), rng.randint(2, 5), pair=(rng.choice(LETTERS), rng.choice(LETTERS)))
        bases.append(render(cmds, random_sepf(rng)))
    stray = ["x", "#", "e", "E", ".", "-", "+", ",", ",,", "\u00e9", "\x00", "\u00a0", "\uff15", "2", "z", "M", "1e", "0x1", "--1", "1.2.3.", "NaN", "1e999", "\x0b"]
    for b in bases:
        for i in range(len(b)):
            yield b[:i], "truncate"
        toks = tokens_of(b)
        for i in range(len(toks)):
            yield "".join(toks[:i] + toks[i + 1:]), "delete"
            yield "".join(toks[:i] + [toks[i], toks[i]] + toks[i + 1:]), "duplicate"
            yield "".join(toks[:i] + [rng.choice(stray)] + toks[i + 1:]), "replace"
            if rng.random() < 0.3:
                yield "".join(toks[:i] + [rng.choice(stray)] + toks[i:]), "insert"
    # random character soup
    alphabet = "MmZzLlHhVvCcSsQqTtAa0123456789.,-+eE \n\t" + "x\u00e9\u00a0\x00#"
    for _ in range(2000 if tier == "quick" else 40000):
        yield "".join(rng.choice(alphabet) for _ in range(rng.randint(1, 24))), "soup"


def c09_timing(mod, tier):
    """list of (key, expected, got); time per character at two lengths"""
    out = []
    info = {}
    fams = {
        "lines": ("M0,0", " l1,1", 100000, 1000000 if tier != "quick" else 500000),
        "curves": ("M0,0", " c1,1 2,2 3,3s1,1 2,2", 100000, 400000),
        "arcs": ("M0,0", " a5,5 0 0110,10", 50000, 200000),
        "closes": ("M0,0", " l1,1z", 12000, 48000),
        "moves-closes": ("", "M0,0l1,1z", 50000, 200000),
        "numbers": ("M0,0 L", " 1", 100000, 400000),
        "longnumber": ("M0,0 L 1,", "1", 100000, 400000),
        "commas": ("M0,0", ",", 100000, 400000),
        "garbage": ("M0,0 L1,1", "x", 100000, 400000),
        "blanks": ("M0,0", " ", 100000, 1000000),
    }
    for name, (pre, unit, n1, n2) in fams.items():
        per = []
        for n in (n1, n2):
            s = pre + unit * (n // len(unit))
            p = mod.Path()
            gc.collect()
            gc.disable()
            t = time.perf_counter()
            try:
                p.parse(s)
            except ValueError:
                pass
            except Exception as e:
                out.append(("long-input-%s-%s" % (name, type(e).__name__), "ValueError or a path", repr(e)[:200],
                            pre + unit * 3 + "...(x%d)" % (n // len(unit))))
                break
            finally:
                dt = time.perf_counter() - t
                gc.enable()
            per.append(dt / len(s))
            fin = None
            if len(p) < 300000:
                fin = finite_problem(p)
            if fin is not None and name != "longnumber":
                out.append(("long-input-%s-nonfinite" % name, "finite coordinates", fin, pre + unit * 3 + "..."))
        if len(per) == 2:
            ratio = per[1] / max(per[0], 1e-12)
            info[name] = {"chars": [n1, n2], "us_per_char": [round(x * 1e6, 3) for x in per], "ratio": round(ratio, 2)}
            growth = n2 / float(n1)
            if ratio > 0.6 * growth and ratio > 2.0:
                out.append(("time-superlinear-%s" % name,
                            "time per character about constant between %d and %d characters" % (n1, n2),
                            "time per character grew x%.1f (length grew x%.0f)" % (ratio, growth),
                            {"prefix": pre, "unit": unit, "lengths": [n1, n2]}))
    return out, info


def replay_c09(mod, witness):
    if "unit" in witness:
        pre, unit = witness["prefix"], witness["unit"]
        per = []
        for n in witness["lengths"]:
            s = pre + unit * (n // len(unit))
            p = mod.Path()
            t = time.perf_counter()
            try:
                p.parse(s)
            except ValueError:
                pass
            per.append((time.perf_counter() - t) / len(s))
        ratio = per[1] / per[0]
        return {"reproduced": ratio > 2.0 and ratio > 0.6 * witness["lengths"][1] / witness["lengths"][0],
                "detail": {"us_per_char": [x * 1e6 for x in per]}}
    r = [x for x in c09_one(mod, witness["s"]) if x[0] != "~lenient"]
    return {"reproduced": bool(r), "detail": r}


@bounded("C09/arbitrary_strings", props=["C09"], replay=replay_c09)
def run_c09(mod, tier, seed):
    rng = random.Random(seed)
    agg = Agg()
    n = 0
    lenient = 0
    fam_counts = {}
    cats = set()
    samples = []
    t0 = time.time()
    seen = set()
    sigs = {}

    def postop_gate(sig):
        # the later operations depend on the retained shape only: run them on the first 4 paths of each
        # (segment kinds, startless, verdict) signature
        sigs[sig] = sigs.get(sig, 0) + 1
        return sigs[sig] <= 4

    for s, fam in c09_family(rng, tier):
        if s in seen:
            continue
        seen.add(s)
        n += 1
        fam_counts[fam.split("-")[0]] = fam_counts.get(fam.split("-")[0], 0) + 1
        res = c09_one(mod, s, postop_gate)
        # distinct: (family, oracle verdict category, first command with error)
        acc, cat, err, _a2 = expected_prefixes(s)
        cats.add((fam.split("-")[0], cat, err_command(s, err) if err else None, err.msg.split(":")[-1][:25] if err else None))
        for key, exp, got in res:
            if key == "~lenient":
                lenient += 1
                continue
            if key not in agg.by or agg.by[key]["count"] < 2 or len(s) < agg.by[key]["_size"]:
                w = minimise_tokens(s, lambda c, key=key: any(x[0] == key for x in c09_one(mod, c)))
                rr = [x for x in c09_one(mod, w) if x[0] == key]
                if rr:
                    agg.add(key, {"s": w}, rr[0][1], rr[0][2], size=len(w))
                else:
                    agg.add(key, {"s": s}, exp, got, size=len(s))
            else:
                agg.by[key]["count"] += 1
        if n % 4000 == 1:
            samples.append(s)
    tfail, tinfo = c09_timing(mod, tier)
    for key, exp, got, w in tfail:
        agg.add(key, w, exp, got)
    return {
        "evaluations": n + 2 * len(tinfo),
        "distinct_nontrivial": len(cats),
        "rule": "strings = hand-written special cases (missing operands, bad flags, stray/non-ASCII/control "
                "characters, overflow) + every command letter with 0..n operands after 6 prefixes + grammar "
                "strings truncated at every position and with each token deleted / duplicated / replaced / "
                "preceded by a stray token + random character soup + long inputs (timing, two lengths). For "
                "each: only ValueError may escape parse()/Path(); retained coordinates finite reals; retained "
                "segments equal the oracle reading of the valid prefix at group or command granularity "
                "(see expected_prefixes.__doc__; leniently accepted supersets are counted, not failed); "
                "d(), d(relative), bbox(), length(), abs(p*Matrix) do not raise. distinct = (family, oracle "
                "verdict, command in error, error kind)",
        "bound": "%d distinct strings (%s); long inputs up to 1e6 chars: %s" % (n, fam_counts, tinfo),
        "exhaustive": False,
        "lenient_supersets_accepted": lenient,
        "timing": tinfo,
        "failures": agg.out(),
        "samples": samples[:8],
        "seconds": round(time.time() - t0, 1),
    }


# ---------------------------------------------------------------------------------------------------------
# (3) C07 d() round trip
# ---------------------------------------------------------------------------------------------------------
TS = (0.0, 0.25, 0.5, 0.75, 1.0)
RELS = (None, False, True)
SMOOTHS = (None, False, True)


def path_magnitude(p, with_arc_frame=False):
    m = 0.0
    for seg in p:
        for name, q in _coords_of(seg):
            if q is not None and (with_arc_frame or name not in ("center", "prx", "pry")):
                m = max(m, abs(q.x), abs(q.y))
    return m


def lib_arc_cond(seg):
    """(radius scale, conditioning factor) of a library arc computed with the oracle formulas"""
    try:
        o = {"start": _pt(seg.start), "end": _pt(seg.end), "rx": seg.rx, "ry": seg.ry,
             "rotation": seg.get_rotation().as_degrees, "large": int(abs(seg.sweep) > math.pi),
             "sweep": int(seg.sweep >= 0)}
        cen = G.arc_center(o)
    except Exception:
        return 0.0, 1.0
    if cen is None:
        return 0.0, 1.0
    r = max(cen["rx"], cen["ry"])
    lam = min(cen["lam"], 1.0)
    cond = min(1.0 / math.sqrt(max(1.0 - lam, 1e-300)), 6.4e5)
    # an eccentric ellipse through two fixed endpoints: a relative error in the short radius moves the centre along the
    # long axis by that error times the axis ratio (the endpoint form is ill-conditioned in the ratio as well as in
    # the radius check)
    lo = min(cen["rx"], cen["ry"])
    if lo > 0:
        cond = min(cond * max(1.0, r / lo), 6.4e5)
    # endpoints that lie close together compared with the radii: an error in the endpoints (they are written with 12
    # digits of the coordinate magnitude, and relative offsets accumulate) turns the chord by error / chord
    chord = math.hypot(o["start"][0] - o["end"][0], o["start"][1] - o["end"][1])
    if chord > 0:
        cond = min(cond * max(1.0, r / chord), 6.4e7)
    return r, cond


def c07_compare(p, q, tol_abs, skip_first_start=False):
    """None or (index, kind, detail, relative error)"""
    if len(p) != len(q):
        return (None, "count", "%d segments became %d" % (len(p), len(q)), None)
    for i, (a, b) in enumerate(zip(p, q)):
        ka, kb = type(a).__name__, type(b).__name__
        if ka != kb:
            return (i, "kind", "%s became %s" % (ka, kb), None)
        if ka == "Move" or a.start is None or b.start is None:
            pts = [(_pt(a.end), _pt(b.end))]
            if ka == "QuadraticBezier":
                pts.append((_pt(a.control), _pt(b.control)))
            elif ka == "CubicBezier":
                pts += [(_pt(a.control1), _pt(b.control1)), (_pt(a.control2), _pt(b.control2))]
            if a.start is not None and b.start is not None and ka == "Move":
                pass
            if (a.start is None) != (b.start is None) and not (skip_first_start and i == 0):
                if ka != "Move":
                    return (i, "start", "start %r became %r" % (a.start, b.start), None)
        else:
            pts = [(_pt(a.point(t)), _pt(b.point(t))) for t in TS]
        tol = tol_abs
        if ka == "Arc":
            r, cond = lib_arc_cond(a)
            tol = max(tol, 2e-11 * r * cond)
        for u, v in pts:
            if u is None or v is None:
                if u is not v:
                    return (i, ka, "%r became %r" % (u, v), None)
                continue
            err = max(abs(u[0] - v[0]), abs(u[1] - v[1]))
            if not err <= tol:
                return (i, ka, "point %r became %r (|diff| %.3g > tol %.3g)" % (u, v, err, tol), err)
    return None


def c07_classify(mod, p, dstr, r, s, bad):
    i, kind, detail, err = bad
    if kind == "Arc":
        return "arc-radii-%G-precision" if _arc_fixed_by_12_digits(mod, p, i, r, s) else "arc-roundtrip-geometry"
    if i and kind in ("CubicBezier", "QuadraticBezier") and s is not False:
        prev = type(list(p)[i - 1]).__name__
        if prev in ("CubicBezier", "QuadraticBezier") and prev != kind and \
                re.search(r"[QqTt][^A-DF-Za-df-z]*[Ss]|[CcSs][^A-DF-Za-df-z]*[Tt]", dstr):
            # d() wrote S after a quadratic (T after a cubic) relying on the SVG rule "control = current
            # point"; the parser reflects the other-degree control instead
            return "smooth-after-other-degree-roundtrip"
    if _exponent_stripped(dstr):
        return "exponent-trailing-zero-stripped"
    if kind in ("count", "kind"):
        return "roundtrip-%s-differs" % kind
    return "roundtrip-geometry-%s" % kind


def _exponent_stripped(dstr):
    """does d() contain a number with a '.' mantissa and a ONE-digit exponent?  '%.12G' always writes at least two
    exponent digits, so such a token has lost trailing zeros of its exponent ('E-10' -> 'E-1')"""
    return re.search(r"\d\.\d+E[-+]\d(?![0-9])", dstr) is not None


def _arc_fixed_by_12_digits(mod, p, i, r, s):
    """would printing the radii/rotation of arc i with more digits than the six of %G make this round trip succeed?
    12 digits (the coordinate format) are tried first; an arc whose radii were scaled up to just span its chord
    (F.6.6) is ill-conditioned in the radii and needs all 17 - the root cause is the same: the text of the radii"""
    if _arc_fixed_by_digits(mod, p, i, 12) or _arc_fixed_by_digits(mod, p, i, 17):
        return True
    # direct criterion: did %G (6 digits) drop digits of this arc's radii or rotation that the 12-digit coordinate
    # format would have kept?  Then the text of the radii is the cause, however ill-conditioned the arc is.
    try:
        a = list(abs(p))[i]
        vals = (a.rx, a.ry, a.get_rotation().as_degrees)
        return any(("%G" % v) != ("%.12G" % v) for v in vals)
    except Exception:
        return False


def _arc_fixed_by_digits(mod, p, i, digits):
    try:
        segs = list(abs(p))
        a = segs[i]
        cur = segs[i - 1].end if i else None
        fmt = "M %%.17g,%%.17g A %%.%dG,%%.%dG %%.%dG %%d,%%d %%.17g,%%.17g" % (digits, digits, digits)
        text = fmt % (
            a.start.x, a.start.y, a.rx, a.ry, a.get_rotation().as_degrees, int(abs(a.sweep) > math.pi),
            int(a.sweep >= 0), a.end.x, a.end.y)
        q = mod.Path(text)
        m = max(path_magnitude([a]), 1e-3)
        rr, cond = lib_arc_cond(a)
        tol = max(1e-10 * m, 2e-11 * rr * cond)
        for t in TS:
            u, v = _pt(a.point(t)), _pt(q[1].point(t))
            if max(abs(u[0] - v[0]), abs(u[1] - v[1])) > tol:
                return False
        return True
    except Exception:
        return False


def c07_one(mod, s, combos=None, subpaths=True):
    """list of (key, witness, expected, got)"""
    out = []
    p = mod.Path(s)
    n = len(p)
    mag = max(path_magnitude(p), 1e-3)
    tol = 1e-11 * (10 + n) * mag
    for r in RELS:
        for sm in SMOOTHS:
            if combos is not None and (r, sm) not in combos:
                continue
            try:
                dstr = p.d(relative=r, smooth=sm)
                q = mod.Path(dstr)
            except Exception as e:
                out.append(("roundtrip-raises-%s" % type(e).__name__, {"s": s, "relative": r, "smooth": sm},
                            "d() and re-parse succeed", repr(e)))
                continue
            bad = c07_compare(p, q, tol, skip_first_start=True)
            if bad is not None:
                out.append((c07_classify(mod, p, dstr, r, sm, bad), {"s": s, "relative": r, "smooth": sm},
                            "Path(p.d(relative=%r, smooth=%r)) has the geometry of p within %.3g" % (r, sm, tol),
                            {"d": dstr if len(dstr) < 300 else dstr[:300] + "...", "segment": bad[0], "what": bad[2]}))
    if combos is None:
        try:
            if str(p) != p.d():
                out.append(("str-differs-from-d", {"s": s, "op": "str"}, p.d(), str(p)))
        except Exception as e:
            out.append(("str-raises-%s" % type(e).__name__, {"s": s, "op": "str"}, "a string", repr(e)))
    if subpaths and n:
        try:
            k = p.count_subpaths()
            subs = [p.subpath(i) for i in range(k)]
        except Exception as e:
            out.append(("subpath-raises-%s" % type(e).__name__, {"s": s, "op": "subpath"}, "subpaths", repr(e)))
            subs = []
        for i, sp in enumerate(subs):
            ref = list(sp)
            nomove = type(ref[0]).__name__ != "Move"
            for r in (None, True):
                w = {"s": s, "subpath": i, "relative": r}
                exp = "Path(p.subpath(%d).d(relative=%r)) has the geometry of that subpath" % (i, r)
                try:
                    dstr = sp.d(relative=r)
                    q = mod.Path(dstr)
                except Exception as e:
                    key = "subpath-without-move-reparse-raises-%s" if nomove else "subpath-d-raises-%s"
                    out.append((key % type(e).__name__, w, exp, repr(e)))
                    continue
                bad = c07_compare(ref, list(q), tol, skip_first_start=True)
                if bad is not None:
                    if bad[1] == "Arc":
                        key = "subpath-arc-radii-%G-precision"
                    elif nomove:
                        # Subpath.d() of a subpath that follows a close without a move of its own starts with a
                        # drawing command: its start point (and a smooth control / close target) is not written
                        key = "subpath-without-move-loses-start"
                    else:
                        key = "subpath-" + c07_classify(mod, mod.Path(*ref), dstr, r, None, bad)
                    out.append((key, w, exp, {"d": dstr[:300], "segment": bad[0], "what": bad[2]}))
    return out


CURATED_C07 = [
    "M0,0 A123.456789,50 0 0,1 100,50",          # radii need more than 6 digits
    "M0,0 A100,50 33.3333333 0,1 100,50",        # rotation needs more than 6 digits
    "M0,0 A10,10 0 0,1 70,70",                   # radii too small: scaled up to 49.4974746830583
    "M0,0 A30,30 0 0,1 100,0",                   # scaled up to exactly 50
    "M0,0 A50,50 0 0,1 100,0",                   # exact half turn
    "M0,0 A50,50 0 1,0 100,0 A50,50 0 1,0 0,0",  # full circle in two halves
    "M100000,0 L100000.0000000001,0 L100001,0",  # relative offset 1.0186e-10
    "M0,0 Q1,2 3,0 C3,0 5,5 6,0",                # control1 == start after a quadratic: written as S with smooth=True
    "M0,0 C1,2 3,4 5,0 Q5,0 6,0",                # control == start after a cubic: written as T
    "M0,0 L1,1 z L2,2 z",                        # subpath begun without a move
    "M0,0 L1,1 z t2,2", "M0,0 L1,1 z a5,5 0 0,1 2,2",
]


def c07_strings(rng, tier):
    """yield (string, tag)"""
    for s in CURATED_C07:
        yield s, "curated"
    n = 2400 if tier == "quick" else 30000
    mags = [1e-3, 1e-2, 1, 10, 100, 1e3, 1e4, 1e5]
    for i in range(n):
        mag = mags[i % len(mags)]
        arcmode = [None, "gen", "small", "half", "rand"][(i // len(mags)) % 5]
        first = None
        pair = None
        kind = i % 11
        if kind == 0:
            pair = (rng.choice("Zz"), rng.choice("LlCcQqSsTtHhVvAa"))  # subpath begun without a move
        elif kind == 1:
            pair = (rng.choice("CcSsQqTt"), rng.choice("SsTt"))
        elif kind == 2:
            pair = (rng.choice("Mm"), rng.choice("Mm"))
        cmds = random_cmds(rng, mag, rng.randint(2, 10), pair=pair, allow_zc=(i % 3 == 0), arcmode=arcmode,
                           zero_radius=(i % 13 == 0))
        yield render(cmds, random_sepf(rng)), "random"
    # paths begun without a move (lenient library feature): absolute L / C / Q first
    for i in range(60 if tier == "quick" else 600):
        mag = mags[i % len(mags)]
        cmds = [rand_cmd(rng, rng.choice("LCQ"), mag, False)] + \
               [rand_cmd(rng, rng.choice("LlCcQqSsTtZzMm"), mag, False) for _ in range(rng.randint(1, 5))]
        yield render(cmds, random_sepf(rng)), "startless"
    # nearly coincident points at large magnitude (relative offsets in exponent form)
    for i in range(200 if tier == "quick" else 3000):
        base = rng.choice([1e5, 65536.0, 99999.5, 12345.678, 1e4, 1000.0, 1e-3, 0.00025])
        x, y = base * rng.uniform(0.5, 1), base * rng.uniform(0.5, 1)
        k1, k2 = rng.randint(1, 200), rng.randint(1, 200)
        x2, y2 = x, y
        for _ in range(k1):
            x2 = math.nextafter(x2, math.inf)
        for _ in range(k2):
            y2 = math.nextafter(y2, -math.inf)
        yield "M %r,%r L %r,%r L %r,%r" % (x, y, x2, y2, x + base / 7, y), "near-coincident"
    # coordinates and offsets that are written in exponent form, incl. exponents whose decimal text ends in 0
    for mant in (2.5, 7.75, 1.5, 3.0, 9.999):
        for ex in (-5, -7, -10, -11, -20, -30):
            v = mant * 10.0 ** ex
            yield "M %r,80 L %r,1 l %r,%r L 3,%r" % (v, -v, v, 2 * v, v), "exponent-form"
    # arcs whose radii need more than 6 digits
    for i in range(150 if tier == "quick" else 2000):
        mag = mags[i % len(mags)]
        rx, ry = mag * rng.uniform(0.5, 2), mag * rng.uniform(0.5, 2)
        yield "M %.6g,%.6g A %.12g %.12g %.9g %d %d %.6g,%.6g" % (
            rng.uniform(-mag, mag), rng.uniform(-mag, mag), rx, ry, rng.uniform(-180, 180), rng.randint(0, 1),
            rng.randint(0, 1), rng.uniform(-mag, mag), rng.uniform(-mag, mag)), "arc-digits"


def replay_c07(mod, witness):
    witness = witness.get("input", witness) if isinstance(witness.get("input", None), dict) else witness
    s = witness["s"]
    if "subpath" in witness or witness.get("op") in ("str", "subpath"):
        r = [x for x in c07_one(mod, s, combos=()) ]
        return {"reproduced": bool(r), "detail": [(x[0], x[3]) for x in r][:3]}
    r = c07_one(mod, s, combos=((witness["relative"], witness["smooth"]),), subpaths=False)
    return {"reproduced": bool(r), "detail": [(x[0], x[3]) for x in r][:3]}


@bounded("C07/d_roundtrip", props=["C07"], replay=replay_c07)
def run_c07(mod, tier, seed):
    rng = random.Random(seed)
    agg = Agg()
    n = 0
    evals = 0
    distinct = set()
    samples = []
    t0 = time.time()
    for s, tag in c07_strings(rng, tier):
        try:
            items = G.parse(s) if tag != "startless" else G.parse_prefix(s, require_move=False)[0]
        except ValueError as e:
            raise AssertionError("generator produced a non-grammar string %r: %s" % (s, e))
        try:
            res = c07_one(mod, s)
        except Exception as e:
            if tag == "startless" and isinstance(e, ValueError):
                continue  # data that does not begin with a move is not a valid path: the library may reject it
            agg.add("path-construction-raises-%s" % type(e).__name__, {"s": s}, "a path", repr(e))
            continue
        n += 1
        evals += 9 + 1
        kinds = [it["cmd"] for it in items]
        for a, b in zip(kinds, kinds[1:]):
            distinct.add((a, b))
        for key, w, exp, got in res:
            if key not in agg.by or agg.by[key]["count"] < 2:
                if tag in ("random",):
                    w2s = minimise_valid(s, lambda c, key=key, w=w: any(
                        x[0] == key for x in c07_one(mod, c, combos=((w.get("relative"), w.get("smooth")),)
                                                     if "relative" in w and "subpath" not in w else None)), budget=40)
                else:
                    w2s = s
                rr = [x for x in c07_one(mod, w2s) if x[0] == key]
                if rr:
                    agg.add(key, rr[0][1], rr[0][2], rr[0][3], size=len(w2s))
                else:
                    agg.add(key, w, exp, got, size=len(s))
            else:
                agg.by[key]["count"] += 1
        if n % 500 == 1:
            samples.append(s)
    return {
        "evaluations": evals,
        "paths": n,
        "distinct_nontrivial": len(distinct),
        "rule": "paths parsed from seeded grammar-random strings (2-10 commands, all letters, implicit "
                "repetition, segment-completing z, closes followed by non-moves, consecutive moves, smooth "
                "chains, arcs with generous / too small (scaled up) / exactly half-turn / random / zero radii), "
                "coordinate magnitudes 1e-3..1e5 (8 decades cycled), plus paths begun without a move, nearly "
                "coincident points and arcs with 12-digit radii; each x relative in {None,False,True} x smooth "
                "in {None,False,True}: q = Path(p.d(...)) must have the same kinds and pointwise geometry at "
                "t in {0,.25,.5,.75,1}; tolerance 1e-11*(10+n_segments)*M with M the largest |coordinate| of "
                "the path (12 significant digits, accumulated over relative offsets); arcs additionally get "
                "2e-11*r*cond, cond = min(1/sqrt(1-lambda), 6.4e5), the sensitivity of the centre to a 12-digit "
                "rounding of the radii (lambda of SVG F.6.6); also str(p) == p.d() and "
                "Path(p.subpath(i).d(relative in {None,True})). distinct = ordered command pairs",
        "bound": "%d paths x 9 (relative, smooth) combinations + subpaths" % n,
        "exhaustive": False,
        "failures": agg.out(),
        "samples": samples[:8],
        "seconds": round(time.time() - t0, 1),
    }
