"""C10/fault_enumeration - fault injection into attribute values of small SVG documents.

Oracle (from the property statement and SVG 1.1 appendix F "error processing": a document in error is rendered up to
the element in error; nothing else changes): for every faulted document D and the document D' obtained from the
unfaulted base by deleting the offending element(s),
  (a) SVG.parse(io.StringIO(D)) (default on_error='ignore') returns a tree and raises nothing (5 s alarm, default
      recursion limit, so unbounded recursion / loops are verdicts too);
  (b) every Shape/Text of the returned tree that lies outside the offending elements' subtrees (not inside them, not
      an instance of them through 'use') is present in D' and D in the same order with the same class, the same
      geometry (segments of abs(Path(shape)): kind, start, end, control points, arc centre/radii vectors/sweep, to
      1e-9 relative) and the same paint (fill and stroke Color.value, stroke_width).
The comparison never looks at the offending element itself (it may be skipped or rendered up to the error).
Positions where the *unfaulted* element already influences its siblings (base != base minus element on the outside
elements) are not used for (b) and counted in "positions_not_isolated".
"""
import io
import itertools
import random
import signal
import sys
import time as _time
import xml.etree.ElementTree as ET

from pyvc import bounded as _framework

NAME = "C10/fault_enumeration"
SVG_NS = "http://www.w3.org/2000/svg"
XLINK_NS = "http://www.w3.org/1999/xlink"
XHREF = "{%s}href" % XLINK_NS
ET.register_namespace("xlink", XLINK_NS)
ET.register_namespace("", SVG_NS)


def bounded(name, props, replay=None):
    """pyvc.bounded.bounded, plus: when the framework is executed as `python -m pyvc.bounded` its registry lives in
    the module object `__main__` while this file imports a second copy `pyvc.bounded`; register in both."""
    def deco(fn):
        _framework.bounded(name, props=props, replay=replay)(fn)
        main = sys.modules.get("__main__")
        if main is not None and main is not _framework and isinstance(getattr(main, "BOUNDED", None), dict) \
                and name not in main.BOUNDED:
            main.BOUNDED[name] = _framework.BOUNDED[name]
            main.ORDER.append(name)
        return fn

    return deco


# ------------------------------------------------------------------ base documents (every element has an id)

R1 = '<rect id="w1" x="1" y="1" width="4" height="3" fill="#102030" stroke="#405060" stroke-width="2"/>'
R2 = '<circle id="w2" cx="20" cy="20" r="5" fill="red"/>'
XL = ' xmlns:xlink="%s"' % XLINK_NS
BASE_DOCS = [
    # single shapes between two witness shapes
    '<svg id="root">%s<rect id="t" x="5" y="6" width="30" height="20" rx="2" ry="3" fill="blue" stroke="green" stroke-width="1.5" transform="translate(3,4)"/>%s</svg>' % (R1, R2),
    '<svg id="root">%s<circle id="t" cx="10" cy="12" r="7" fill="#abc" stroke="rgb(1,2,3)" transform="scale(2)"/>%s</svg>' % (R1, R2),
    '<svg id="root">%s<ellipse id="t" cx="10" cy="12" rx="7" ry="4" fill="yellow" stroke-width="3" transform="rotate(20)"/>%s</svg>' % (R1, R2),
    '<svg id="root">%s<line id="t" x1="1" y1="2" x2="30" y2="40" stroke="black" stroke-width="2"/>%s</svg>' % (R1, R2),
    '<svg id="root">%s<polyline id="t" points="0,0 10,5 20,0 30,5" fill="none" stroke="purple"/>%s</svg>' % (R1, R2),
    '<svg id="root">%s<polygon id="t" points="0,0 10,5 20,0" fill="orange" transform="matrix(1,0,0,1,5,5)"/>%s</svg>' % (R1, R2),
    '<svg id="root">%s<path id="t" d="M0,0 L10,0 Q15,5 10,10 C5,15 0,15 0,10 Z" fill="teal" stroke="navy"/>%s</svg>' % (R1, R2),
    '<svg id="root">%s<path id="t" d="M10,10 a5,5 0 0 1 10,0 A 5 5 0 1 0 10 10 z" stroke="#000" transform="skewX(10)"/>%s</svg>' % (R1, R2),
    '<svg id="root">%s<path id="t" d="m1,1 h5 v5 h-5 z m10,0 l3,3 t2,2 s1,1 2,2"/>%s</svg>' % (R1, R2),
    '<svg id="root">%s<text id="t" x="5" y="15" fill="maroon" stroke="none" font-size="12" transform="translate(1,1)">hello</text>%s</svg>' % (R1, R2),
    '<svg id="root">%s<text id="t" x="5" y="15">a<tspan id="ts" fill="red" dx="2">b</tspan></text>%s</svg>' % (R1, R2),
    # containers
    '<svg id="root">%s<g id="t" transform="translate(10,10)" fill="lime" stroke="gray" stroke-width="4"><rect id="c1" width="5" height="5"/><circle id="c2" r="3"/></g>%s</svg>' % (R1, R2),
    '<svg id="root">%s<g id="go" transform="scale(2)"><g id="t" transform="rotate(45)" fill="pink"><path id="c1" d="M0,0 L5,5"/></g><rect id="c2" width="2" height="2"/></g>%s</svg>' % (R1, R2),
    '<svg id="root"><g id="ga" fill="olive">%s<g id="t" stroke="red"><line id="c1" x1="0" y1="0" x2="4" y2="4"/></g>%s</g><polygon id="w3" points="1,1 2,2 3,1"/></svg>' % (R1, R2),
    '<svg id="root" xmlns="%s">%s<g id="t"><g id="gi"><ellipse id="c1" rx="4" ry="2"/></g></g>%s</svg>' % (SVG_NS, R1, R2),
    # defs / use
    '<svg id="root"><defs id="d"><rect id="t" width="6" height="4" fill="cyan" transform="scale(1.5)"/></defs>%s<use id="u" href="#t" x="10" y="10"/>%s</svg>' % (R1, R2),
    '<svg id="root"%s><defs id="d"><circle id="p" r="4" fill="gold"/></defs>%s<use id="t" xlink:href="#p" x="3" y="4" width="10" height="10" transform="scale(2)" fill="red"/>%s</svg>' % (XL, R1, R2),
    '<svg id="root"><defs id="d"><g id="p" stroke="blue"><rect id="p1" width="3" height="3"/><path id="p2" d="M0,0 L3,3"/></g></defs>%s<use id="t" href="#p" y="5"/>%s</svg>' % (R1, R2),
    '<svg id="root">%s<g id="ga" transform="translate(1,1)"><rect id="c1" width="3" height="3"/><use id="t" href="#w1" x="50"/></g>%s</svg>' % (R1, R2),
    '<svg id="root">%s<g id="ga"><use id="t" href="#w1" x="10"/><circle id="c1" r="2"/></g><g id="gb"><use id="t2" href="#w2" y="10"/><circle id="c2" r="1"/></g>%s</svg>' % (R1, R2),
    '<svg id="root"><defs id="d"><path id="p" d="M0,0 L4,4"/><use id="t" href="#p" x="1"/></defs>%s<use id="u" href="#t" y="2"/>%s</svg>' % (R1, R2),
    '<svg id="root"><defs id="t" transform="scale(2)"><polygon id="p" points="0,0 4,0 2,3" fill="brown"/></defs>%s<use id="u" href="#p"/>%s</svg>' % (R1, R2),
    # viewports
    '<svg id="t" viewBox="0 0 100 100" width="200" height="200">%s%s</svg>' % (R1, R2),
    '<svg id="t" viewBox="0 0 100 50" width="300px" height="300px" preserveAspectRatio="xMinYMax slice" x="1" y="2">%s%s</svg>' % (R1, R2),
    '<svg id="t" width="10cm" height="5cm" fill="red" stroke="blue" stroke-width="3" transform="scale(2)">%s%s</svg>' % (R1, R2),
    '<svg id="root" viewBox="0 0 50 50" width="100" height="100">%s<svg id="t" x="5" y="5" width="20" height="20" viewBox="0 0 10 10"><rect id="c1" width="5" height="5"/></svg>%s</svg>' % (R1, R2),
    '<svg id="root">%s<g id="ga"><svg id="t" width="20" height="20" viewBox="0 0 40 40"><circle id="c1" r="5"/></svg><path id="w3" d="M0,0 L9,9"/></g>%s</svg>' % (R1, R2),
    '<svg id="root" viewBox="0 0 200 100">%s<rect id="t" x="10%%" y="10%%" width="50%%" height="50%%" stroke-width="1%%"/>%s</svg>' % (R1, R2),
    # style sheets and inline style (faults never go into the sheet)
    '<svg id="root"><style id="st">.k{fill:#123456} rect{stroke:#654321}</style>%s<rect id="t" class="k" width="9" height="9" style="stroke-width:3;fill:red"/><circle id="w3" class="k" r="2"/>%s</svg>' % (R1, R2),
    '<svg id="root">%s<g id="t" style="fill:green;stroke:black"><polyline id="c1" points="0,0 5,5 10,0"/></g>%s</svg>' % (R1, R2),
    '<svg id="root">%s<path id="t" d="M0,0 L5,5" style="stroke:red;stroke-width:2" fill-opacity="0.5" stroke-opacity="0.25"/>%s</svg>' % (R1, R2),
    # more geometry variety
    '<svg id="root">%s<rect id="t" width="10" height="10"/>%s</svg>' % (R1, R2),
    '<svg id="root">%s<circle id="t" r="1mm" cx="1in" cy="2pt" stroke-width="0.5pt"/>%s</svg>' % (R1, R2),
    '<svg id="root">%s<ellipse id="t" rx="10" ry="5"/><ellipse id="t2" rx="3" ry="3" cx="9" cy="9" fill="none" stroke="red"/>%s</svg>' % (R1, R2),
    '<svg id="root">%s<line id="t" x1="0" y1="0" x2="10" y2="10" stroke="red" transform="translate(5) rotate(10 1 1)"/>%s</svg>' % (R1, R2),
    '<svg id="root">%s<polygon id="t" points="0 0, 10 0, 10 10, 0 10" stroke="red" stroke-width="2"/><polyline id="t2" points="1,1,2,2,3,1"/>%s</svg>' % (R1, R2),
    '<svg id="root">%s<path id="t" d="M0,0 H10 V10 H0 Z M20,20 L30,30" fill="none" stroke="currentColor" color="red"/>%s</svg>' % (R1, R2),
    '<svg id="root">%s<g id="t" display="inline" transform="matrix(2,0,0,2,0,0)"><text id="c1" x="1" y="1" transform="rotate(5)">t</text><rect id="c2" width="1" height="1"/></g>%s</svg>' % (R1, R2),
    '<svg id="root">%s<rect id="t" width="8" height="8"/><rect id="t2" x="9" width="8" height="8"/><rect id="t3" x="18" width="8" height="8"/>%s</svg>' % (R1, R2),
    '<svg id="root">%s<g id="ga"><g id="gb"><g id="t" transform="translate(1)"><rect id="c1" width="2" height="2"/></g><use id="u" href="#c1" x="5"/></g></g>%s</svg>' % (R1, R2),
    '<svg id="root"%s><defs id="d"><rect id="p" width="2" height="2"/></defs>%s<use id="t" xlink:href="#p" href="#p" x="4"/><use id="t2" xlink:href="#t" y="4"/>%s</svg>' % (XL, R1, R2),
    '<svg id="root"><defs id="d"><rect id="p" width="2" height="2"/><use id="ua" href="#p"/><use id="ub" href="#ua"/><use id="uc" href="#ub"/></defs>%s<use id="t" href="#uc"/>%s</svg>' % (R1, R2),
    # witnesses after the faulted element whose geometry depends on the viewport (percentages): a fault that disables
    # a nested viewport must not leave that viewport behind for its later siblings
    '<svg id="root" width="200" height="100">%s<svg id="t" x="5" y="5" width="20" height="50" viewBox="0 0 10 10"><rect id="c1" width="5" height="5"/></svg><rect id="w3" x="10%%" y="10%%" width="50%%" height="50%%" stroke="red" stroke-width="1%%"/><circle id="w4" cx="50%%" cy="50%%" r="5%%"/>%s</svg>' % (R1, R2),
    '<svg id="root" width="200" height="100">%s<g id="ga" transform="translate(3,4)"><svg id="t" width="20" height="50"><rect id="c1" width="5" height="5"/></svg><ellipse id="w3" cx="25%%" cy="25%%" rx="10%%" ry="20%%"/><use id="w4" href="#w1" x="25%%" y="10%%"/></g>%s</svg>' % (R1, R2),
]

# ------------------------------------------------------------------ fault pools: attribute -> [(malformed text, fault kind)]

POOL = {
    "transform": [("rotate(a)", "missing-args"), ("rotate()", "missing-args"), ("matrix(1,2)", "missing-args"),
                  ("matrix(1 2 3 4 5)", "missing-args"), ("scale(1,2,3,4,5)", "extra-args"), ("translate(", "unclosed"),
                  ("skewX()", "missing-args"), ("garbage(1)", "unknown-function"), ("", "empty")],
    "color": [("rgb(1.5,2,3)", "rgb-float"), ("rgb(300,-1,5", "rgb-unclosed"), ("#12", "hex-short"), ("#ggg", "hex-nonhex"),
              ("hsl(a,b,c)", "hsl-nonnumeric"), ("url(#nope)", "url-missing"), ("", "empty")],
    "length": [("abc", "nonnumeric"), ("1e", "dangling-exponent"), ("--5", "double-sign"), ("5 px", "space-before-unit"),
               ("", "empty"), ("10%%", "double-percent"), ("1e999", "overflow")],
    "size": [("0", "zero"), ("-5", "negative")],
    "points": [("1,2,3", "odd-count"), ("a b", "nonnumeric"), ("1,,2", "empty-coordinate")],
    "viewBox": [("0 0 100", "three-numbers"), ("a b c d", "nonnumeric"), ("0 0 0 0", "zero-size"), ("0,0,-5,5", "negative-size")],
    "d": [("M", "move-without-coordinates"), ("M0,0 h", "command-without-args"), ("h 5", "no-initial-move"),
          ("a 1 1 0 0 0 5 5", "no-initial-move"), ("M0,0 L", "command-without-args"), ("M0,0 A 5 5 0 2 1 3 3", "arc-bad-flag"),
          ("M0 0 L 1", "odd-coordinates"), ("M0,0 Lé 5 ☃", "garbage-characters"), ("M1e999 0", "overflow"),
          ("M 1,1 L 5 z", "close-in-place-of-number"), ("M1,1 h z", "close-in-place-of-number"),
          ("M0,0 L 10,10 L", "command-without-args"), ("M0,0 C 1,1 2,2 3,3 S", "command-without-args")],
    "style": [("fill:rgb(1.5,2,3)", "fill-rgb-float"), ("stroke-width:abc", "length-nonnumeric"), (":::", "no-declaration"),
              ("fill", "no-declaration")],
}
LENGTH_ATTRS = ("x", "y", "cx", "cy", "r", "rx", "ry", "x1", "y1", "x2", "y2", "stroke-width", "dx", "font-size")
ALWAYS = ("transform", "fill", "stroke", "stroke-width")  # injected into every element, present in the base or not
SHAPE_TAGS = ("rect", "circle", "ellipse", "line", "polyline", "polygon", "path")


def local(tag):
    return tag.rsplit("}", 1)[-1]


def elemcat(tag):
    t = local(tag)
    if t in SHAPE_TAGS:
        return ""
    if t in ("text", "tspan"):
        return "text-"
    if t in ("g", "defs"):
        return "group-"
    return t + "-"  # svg-, use-


def attr_pools(tag, attr):
    """-> list of (pool name, kind prefix) that apply to this attribute"""
    a = local(attr)
    if a == "transform":
        return [("transform", "transform-")]
    if a in ("fill", "stroke"):
        return [("color", a + "-")]
    if a in ("width", "height"):
        return [("length", "length-"), ("size", "size-")]
    if a in LENGTH_ATTRS:
        return [("length", "length-")]
    if a == "points":
        return [("points", "points-")]
    if a == "viewBox":
        return [("viewBox", "viewbox-")]
    if a == "d" and local(tag) == "path":
        return [("d", "path-")]
    if a == "style":
        return [("style", "style-")]
    return []


def parse_doc(text):
    return ET.fromstring(text)


def ser(root):
    return ET.tostring(root, encoding="unicode")


def by_id(root, i):
    for el in root.iter():
        if el.get("id") == i:
            return el
    return None


def parent_map(root):
    return {c: p for p in root.iter() for c in p}


def ancestors_ids(root, el):
    pm = parent_map(root)
    out = []
    while el in pm:
        el = pm[el]
        out.append(el.get("id"))
    return out


def single_faults(doc_index, text):
    """every single fault of one base document: dict(doc, edits[(id, attr, value)], kind, offending[ids]).
    The witness shapes w1, w2 (the same two elements in every document) are fault targets in document 0 only."""
    root = parse_doc(text)
    out = []
    for el in root.iter():
        tag, i = local(el.tag), el.get("id")
        if tag == "style" or (doc_index > 0 and i in ("w1", "w2")):
            continue
        cat = elemcat(tag)
        attrs = list(el.attrib)
        for a in ALWAYS:
            if a not in attrs and tag != "tspan":
                attrs.append(a)
        for a in attrs:
            for pool, prefix in attr_pools(tag, a):
                for value, kind in POOL[pool]:
                    out.append({"doc": doc_index, "edits": [[i, a, value]], "kind": cat + prefix + kind, "offending": [i]})
        if tag == "use":
            hrefs = [a for a in el.attrib if local(a) == "href"]
            anc = [x for x in ancestors_ids(root, el) if x]
            targets = [("#missing", "dangling-use"), ("missing", "dangling-use"), ("", "dangling-use"), ("#" + i, "cyclic-use")]
            targets += [("#" + x, "cyclic-use") for x in anc[:2]]
            for value, kind in targets:
                out.append({"doc": doc_index, "edits": [[i, h, value] for h in hrefs], "kind": kind, "offending": [i],
                            "variant": "self" if value == "#" + i else ("ancestor" if value[1:] in anc else "missing")})
    # mutual cycles between two use elements (each made to point at a container of the other, or at the other)
    uses = [el for el in root.iter() if local(el.tag) == "use"]
    pm = parent_map(root)
    for u1, u2 in itertools.combinations(uses, 2):
        for t1, t2 in ((pm[u2], pm[u1]), (u2, u1)):
            if t1.get("id") and t2.get("id") and t1 is not root and t2 is not root:
                edits = [[u1.get("id"), h, "#" + t1.get("id")] for h in u1.attrib if local(h) == "href"]
                edits += [[u2.get("id"), h, "#" + t2.get("id")] for h in u2.attrib if local(h) == "href"]
                out.append({"doc": doc_index, "edits": edits, "kind": "cyclic-use", "offending": [u1.get("id"), u2.get("id")],
                            "variant": "mutual"})
    # a chain that runs into a cycle it is not part of: e -> a -> b -> c -> b (the entry and the first hop lie outside)
    named = [u for u in uses if u.get("id")]
    for quad in itertools.islice(itertools.permutations(named, 4), 6):
        e, a, b, c = quad
        edits = []
        for src, dst in ((e, a), (a, b), (b, c), (c, b)):
            edits += [[src.get("id"), h, "#" + dst.get("id")] for h in src.attrib if local(h) == "href"]
        out.append({"doc": doc_index, "edits": edits, "kind": "cyclic-use", "offending": [x.get("id") for x in quad],
                    "variant": "chain-into-cycle"})
    return out


# ------------------------------------------------------------------ running the library under an alarm

class ParseTimeout(BaseException):
    pass


def _on_alarm(signum, frame):
    raise ParseTimeout()


def guarded_parse(mod, text, limit=5):
    """-> (tree, None) or (None, exception name, message)"""
    old = signal.signal(signal.SIGALRM, _on_alarm)
    signal.alarm(limit)
    try:
        tree = mod.SVG.parse(io.StringIO(text))
        return tree, None
    except ParseTimeout:
        return None, ("Timeout", "no result within %d s" % limit)
    except RecursionError as e:
        return None, ("RecursionError", str(e)[:100])
    except Exception as e:  # the verdict, not hidden: reported as a failure by the caller
        return None, (type(e).__name__, str(e)[:100])
    finally:
        signal.alarm(0)
        signal.signal(signal.SIGALRM, old)


def _num(v):
    return float(v) if v is not None else None


def signature(mod, tree, excluded):
    """ordered list of (chain ids, id, class, geometry numbers, paint) of the Shape/Text nodes outside `excluded`"""
    out = []

    def walk(node, chain):
        for child in node:
            cid = getattr(child, "id", None)
            if isinstance(child, (mod.Shape, mod.Text)):
                if cid in excluded or any(c in excluded for c in chain):
                    continue
                geo = []
                if isinstance(child, mod.Shape):
                    p = abs(mod.Path(child))
                    for seg in p:
                        geo.append(type(seg).__name__)
                        for name in ("start", "end", "control", "control1", "control2", "center", "prx", "pry"):
                            q = getattr(seg, name, None)
                            if q is not None:
                                geo += [float(q[0]), float(q[1])]
                        if isinstance(seg, mod.Arc):
                            geo.append(float(seg.sweep))
                else:
                    t = child.transform
                    geo = ["Text", str(child.text), _num(child.x), _num(child.y)] + [float(getattr(t, k)) for k in "abcdef"]
                paint = [None if child.fill is None else child.fill.value, None if child.stroke is None else child.stroke.value,
                         _num(child.stroke_width)]
                out.append({"chain": list(chain), "id": cid, "class": type(child).__name__, "geo": geo, "paint": paint})
            if isinstance(child, list):
                if cid in excluded:
                    continue
                walk(child, chain + [cid])

    if isinstance(tree, list):
        walk(tree, [getattr(tree, "id", None)])
    return out


def _same(a, b):
    if isinstance(a, float) and isinstance(b, float):
        if a == b or (a != a and b != b):
            return True
        return abs(a - b) <= 1e-9 * max(abs(a), abs(b)) + 1e-12
    return a == b


def diff_signatures(want, got):
    """-> None or a short description of the first difference"""
    wi = [(w["chain"], w["id"]) for w in want]
    gi = [(g["chain"], g["id"]) for g in got]
    if wi != gi:
        lost = [w for w in wi if w not in gi]
        added = [g for g in gi if g not in wi]
        return {"what": "presence", "lost": [x[1] for x in lost], "added": [x[1] for x in added]}
    for w, g in zip(want, got):
        if w["class"] != g["class"]:
            return {"what": "class", "id": w["id"], "expected": w["class"], "got": g["class"]}
        if len(w["geo"]) != len(g["geo"]) or not all(_same(a, b) for a, b in zip(w["geo"], g["geo"])):
            return {"what": "geometry", "id": w["id"], "expected": w["geo"][:12], "got": g["geo"][:12]}
        if not all(_same(a, b) for a, b in zip(w["paint"], g["paint"])):
            return {"what": "paint", "id": w["id"], "expected": w["paint"], "got": g["paint"]}
    return None


def use_has_offset(base_text, fault):
    root = parse_doc(base_text)
    for i in fault["offending"]:
        el = by_id(root, i)
        if el is not None and any(a in el.attrib for a in ("x", "y", "transform")):
            return True
    return False


def subtree_ids(root, ids):
    out = set()
    for i in ids:
        el = by_id(root, i)
        if el is not None:
            out.update(x.get("id") for x in el.iter() if x.get("id"))
    return out


def apply_edits(base_text, edits):
    root = parse_doc(base_text)
    for i, a, v in edits:
        el = by_id(root, i)
        if el is not None:
            el.set(a, v)
    return root


def reference_doc(base_text, offending):
    """the unfaulted document minus the offending elements; None when the root itself is offending"""
    root = parse_doc(base_text)
    pm = parent_map(root)
    for i in offending:
        el = by_id(root, i)
        if el is None:
            continue
        if el is root:
            return None
        if el in pm and el in list(pm[el]):
            pm[el].remove(el)
    return ser(root)


_REF = {}


def refmod_of(mod):
    """a second, independent instance of the library (same file, separate module object and therefore separate class
    and module level state).  The documents *without* the offending elements are parsed with it, so that state which a
    failed element leaves behind in the first instance (a shared lexer, a cache, a registry) cannot also colour the
    expectation: 'geometry as when the offending element is removed' means removed from everything the parser saw."""
    if id(mod) not in _REF:
        import importlib.util
        import sys as _sys

        inner = _sys.modules.get(mod.__name__ + ".svgelements", mod) if hasattr(mod, "__path__") else mod
        spec = importlib.util.spec_from_file_location("svgelements_reference_instance", inner.__file__)
        m = importlib.util.module_from_spec(spec)
        _sys.modules[spec.name] = m
        spec.loader.exec_module(m)
        _REF[id(mod)] = m
    return _REF[id(mod)]


def evaluate(mod, base_text, faults, cache=None, limit=5):
    """run one faulted document.  -> dict(doc, ref, failures=[dict(key, expected, got)], compared, isolated)"""
    edits = [e for f in faults for e in f["edits"]]
    offending = sorted({i for f in faults for i in f["offending"]})
    kinds = sorted({f["kind"] for f in faults})
    label = kinds[0] if len(kinds) == 1 else "multi(" + "+".join(kinds) + ")"
    root = apply_edits(base_text, edits)
    doc = ser(root)
    res = {"doc": doc, "ref": None, "failures": [], "compared": 0, "isolated": True, "label": label}
    tree, err = guarded_parse(mod, doc, limit)
    if err is not None:
        res["failures"].append({"key": "%s-%s" % (label, err[0]), "expected": "a document tree, no exception",
                                "got": "%s: %s" % err})
        return res
    if tree is None or not isinstance(tree, mod.SVGElement):
        res["failures"].append({"key": "%s-returns-%s" % (label, type(tree).__name__), "expected": "a document tree",
                                "got": repr(tree)[:80]})
        return res
    ref = reference_doc(base_text, offending)
    if ref is None:
        return res  # the root is the offending element: nothing lies outside its subtree
    res["ref"] = ref
    excluded = subtree_ids(parse_doc(base_text), offending)
    ck = (base_text, tuple(offending))
    if cache is not None and ck in cache:
        want, isolated = cache[ck]
    else:
        rm = refmod_of(mod)
        rtree, rerr = guarded_parse(rm, ref)
        btree, berr = guarded_parse(rm, base_text)
        if rerr is not None or berr is not None:
            want, isolated = None, False
        else:
            want = signature(rm, rtree, excluded)
            isolated = diff_signatures(want, signature(rm, btree, excluded)) is None
        if cache is not None:
            cache[ck] = (want, isolated)
    res["isolated"] = isolated
    if not isolated:
        return res
    try:
        got = signature(mod, tree, excluded)
    except Exception as e:
        res["failures"].append({"key": "sibling-geometry-after-%s-%s" % (label, type(e).__name__),
                                "expected": "geometry of the untouched elements can be computed",
                                "got": "%s: %s" % (type(e).__name__, str(e)[:100])})
        return res
    res["compared"] = len(want)
    d = diff_signatures(want, got)
    if d is not None:
        res["failures"].append({"key": "sibling-changed-after-%s" % label, "expected": "outside elements as in the document without the offending element",
                                "got": d})
    return res


# ------------------------------------------------------------------ minimisation

CATEGORIES = ("text-", "group-", "svg-", "use-")


def strip_category(key):
    """'group-transform-missing-args-IndexError' -> 'transform-missing-args-IndexError' (also inside sibling-... keys)"""
    for lead in ("sibling-changed-after-", "sibling-geometry-after-", ""):
        if key.startswith(lead):
            rest = key[len(lead):]
            for c in CATEGORIES:
                if rest.startswith(c) and not rest.startswith("use-href"):
                    return lead + rest[len(c):]
            if lead:
                return key
    return key


def exc_class(key):
    return "sibling" if key.startswith("sibling-") else key.rsplit("-", 1)[-1]


def minimise(mod, base_text, faults, key):
    """smallest (fault subset, document) that still fails in the same way (same exception type / sibling change);
    -> (base_text, faults, result)"""
    cls = exc_class(key)

    def fails(bt, fs):
        try:
            r = evaluate(mod, bt, fs)
        except Exception:
            return None
        for f in r["failures"]:
            if exc_class(f["key"]) == cls:
                return r
        return None

    cur = fails(base_text, faults)
    if cur is None:
        return base_text, faults, evaluate(mod, base_text, faults)
    changed = True
    while changed and len(faults) > 1:
        changed = False
        for n in range(len(faults)):
            fs = faults[:n] + faults[n + 1:]
            r = fails(base_text, fs)
            if r is not None:
                faults, cur, changed = fs, r, True
                break
    want_keys = {f["key"] for f in cur["failures"] if exc_class(f["key"]) == cls}
    keep = {i for f in faults for i in f["offending"]} | {e[0] for f in faults for e in f["edits"]}

    def same(bt):
        r = fails(bt, faults)
        return r if r is not None and want_keys & {f["key"] for f in r["failures"]} else None

    changed = True
    while changed:
        changed = False
        root = parse_doc(base_text)
        pm = parent_map(root)
        # remove whole elements that are not offending and do not contain an offending element
        for el in list(root.iter()):
            if el is root or el.get("id") in keep or any(x.get("id") in keep for x in el.iter()):
                continue
            r2 = parse_doc(base_text)
            victim = by_id(r2, el.get("id")) if el.get("id") else None
            if victim is None:
                continue
            parent_map(r2)[victim].remove(victim)
            t2 = ser(r2)
            r = same(t2)
            if r is not None and len(t2) < len(base_text):
                base_text, cur, changed = t2, r, True
                break
        if changed:
            continue
        # remove attributes that are not edited
        edited = {(e[0], e[1]) for f in faults for e in f["edits"]}
        for el in root.iter():
            for a in list(el.attrib):
                if a == "id" or (el.get("id"), a) in edited:
                    continue
                r2 = parse_doc(base_text)
                v = by_id(r2, el.get("id")) if el.get("id") else (r2 if el is root else None)
                if v is None or a not in v.attrib:
                    continue
                del v.attrib[a]
                t2 = ser(r2)
                r = same(t2)
                if r is not None:
                    base_text, cur, changed = t2, r, True
                    break
            if changed:
                break
    return base_text, faults, cur


# ------------------------------------------------------------------ explanations of the known defect classes

EXPLANATIONS = [
    (r"(\w+-)?transform-missing-args-IndexError",
     "Matrix.parse indexes the number list of a transform function without checking its length (rotate(a), rotate(), "
     "matrix(1,2), skewX() ...): IndexError.  SVG.parse guards shape construction with 'except ValueError' only and does "
     "not guard svg/g/defs/use/text construction at all, so the exception aborts the whole parse."),
    (r"(\w+-)?transform-extra-args-TypeError",
     "Matrix.parse passes all numbers of scale(1,2,3,4,5) as positional arguments to pre_scale: TypeError, not caught by "
     "the 'except ValueError' guard of SVG.parse (and unguarded for containers, use and text)."),
    (r"cyclic-use-(RecursionError|Timeout)",
     "SVG._use_structure_parse.semiparse inlines the target of every use without a visited set: a use that points at "
     "itself, an ancestor, or a use pointing back recurses until RecursionError (seconds when the use has x/y, because "
     "the accumulated transform string grows with the depth).  SVG 1.1 5.6: such a reference is an error; the element "
     "is to be skipped."),
    (r"path-.*-(TypeError|AttributeError)",
     "Path.parse / the segment builders raise TypeError or AttributeError (no current point, missing arguments) for "
     "malformed path data; SVG.parse only catches ValueError, so the document parse aborts instead of rendering the "
     "path up to the error (SVG 1.1 F.2)."),
    (r"(text|group|svg)-(fill|stroke)-rgb-float-ValueError",
     "Color.parse raises ValueError for rgb(1.5,2,3) (int('1.5')).  Shapes are built inside try/except ValueError, but "
     "Text(values) at the 'end' event is not: a text or tspan that has or inherits the bad paint aborts the parse."),
    (r"svg-viewbox-.*-TypeError",
     "A viewBox that does not yield four numbers leaves Viewbox.width/height None while SVG.viewbox is not None; "
     "SVG.parse then sets width = s.viewbox.width = None and the next percentage stroke-width evaluates "
     "sqrt(None*None): TypeError."),
    (r"sibling-changed-after-svg-.*",
     "For an svg element with a viewBox whose width/height evaluates to 0 (or whose viewBox has zero size) SVG.parse "
     "executes 'return s': correct for the outermost svg, but for a nested svg it returns the inner element as the "
     "document and drops every element that follows.  SVG 1.1 5.1.2: a zero width/height disables rendering of that "
     "element only."),
]


def explain(key):
    import re
    for pat, text in EXPLANATIONS:
        if re.fullmatch(pat, key):
            return text
    return ""


def replay(mod, witness):
    inp = witness.get("input", witness)
    old = sys.getrecursionlimit()
    sys.setrecursionlimit(1000)
    try:
        r = evaluate(mod, inp["base"], inp["faults"])
    finally:
        sys.setrecursionlimit(old)
    keys = sorted(f["key"] for f in r["failures"])
    want = witness.get("key")
    return {"reproduced": (want in keys or want in [strip_category(k) for k in keys]) if want else bool(keys), "detail": {"keys": keys, "failures": r["failures"], "doc": r["doc"]}}


@bounded(NAME, props=["C10"], replay=replay)
def run(mod, tier, seed):
    rng = random.Random(seed)
    old_limit = sys.getrecursionlimit()
    sys.setrecursionlimit(1000)  # CPython default: a cyclic 'use' becomes a verdict
    try:
        return _run(mod, tier, rng)
    finally:
        sys.setrecursionlimit(old_limit)


def _run(mod, tier, rng):
    cache = {}
    evaluations = 0
    compared = 0
    not_isolated = set()
    distinct = set()
    by_key = {}
    samples = []
    singles = []
    for n, text in enumerate(BASE_DOCS):
        text = ser(parse_doc(text))
        BASE_DOCS[n] = text
        singles.append(single_faults(n, text))

    def record(base, faults, r):
        for f in r["failures"]:
            rec = by_key.setdefault(f["key"], {"count": 0, "first": None})
            rec["count"] += 1
            size = (len(faults), len(r["doc"]))
            if rec["first"] is None or size < rec["first"][0]:
                rec["first"] = (size, base, faults, f)

    # all single faults
    slow = {}
    skipped_slow = 0
    passing = [[] for _ in singles]
    for n, fl in enumerate(singles):
        for f in fl:
            if tier == "quick" and f["kind"] == "cyclic-use" and use_has_offset(BASE_DOCS[n], f):
                # a cycle through a use with x/y/transform takes seconds on the pinned tree (the accumulated transform
                # text grows with the depth): the quick tier runs the first two such cases, the thorough tier all
                slow["n"] = slow.get("n", 0) + 1
                if slow["n"] > 2:
                    skipped_slow += 1
                    continue
            r = evaluate(mod, BASE_DOCS[n], [f], cache)
            if not r["failures"]:
                passing[n].append(f)
            evaluations += 1
            compared += r["compared"]
            distinct.add((n, f["edits"][0][0], f["edits"][0][1], f["kind"], f.get("variant")))
            if not r["isolated"]:
                not_isolated.add((n, tuple(f["offending"])))
            if r["failures"]:
                record(BASE_DOCS[n], [f], r)
            if evaluations % 1499 == 1 and len(samples) < 6:
                samples.append({"doc": r["doc"], "fault": f["kind"]})
    n_single = evaluations
    # sampled pairs and triples in one document (distinct attribute positions)
    n_multi = {"quick": (2000, 800), "thorough": (60000, 30000)}[tier]
    for size, count in zip((2, 3), n_multi):
        for _ in range(count):
            n = rng.randrange(len(BASE_DOCS))
            fl = passing[n]  # a fault that already fails alone would only reproduce its own verdict
            if len(fl) < size:
                continue
            pick = []
            used = set()
            for _try in range(20):
                f = fl[rng.randrange(len(fl))]
                pos = {(e[0], e[1]) for e in f["edits"]}
                if pos & used:
                    continue
                used |= pos
                pick.append(f)
                if len(pick) == size:
                    break
            if len(pick) < size:
                continue
            r = evaluate(mod, BASE_DOCS[n], pick, cache)
            evaluations += 1
            compared += r["compared"]
            distinct.add((n,) + tuple(sorted((f["edits"][0][0], f["edits"][0][1], f["kind"]) for f in pick)))
            if r["failures"]:
                record(BASE_DOCS[n], pick, r)  # every member passes alone: a genuine interaction
            if evaluations % 1499 == 1 and len(samples) < 8:
                samples.append({"doc": r["doc"], "fault": r["label"]})
    merged = {}
    reclassified = {}
    for key in sorted(by_key):
        if not key.endswith("-Timeout"):
            continue
        # does the parse end at all?  one run with a 60 s alarm: a slow exception is reported under that exception
        size, base, faults, f = by_key[key]["first"]
        t0 = _time.time()
        r = evaluate(mod, base, list(faults), None, limit=60)
        took = round(_time.time() - t0, 1)
        if r["failures"] and not r["failures"][0]["key"].endswith("-Timeout"):
            k2 = r["failures"][0]["key"]
            reclassified[key] = {"as": k2, "cases": by_key[key]["count"], "seconds": took}
            if k2 in by_key:
                by_key[k2]["count"] += by_key[key]["count"]
                del by_key[key]
    # a verdict that also occurs on plain shapes is one defect class: drop the element-category prefix
    for key in sorted(by_key):
        bare = strip_category(key)
        if bare != key and bare in by_key:
            by_key[bare]["count"] += by_key[key]["count"]
            by_key[bare].setdefault("also_on", []).append(key[:len(key) - len(bare)].rstrip("-"))
            del by_key[key]
    for key in sorted(by_key):
        size, base, faults, f = by_key[key]["first"]
        if key.endswith("-Timeout"):
            base2, faults2, r = base, list(faults), evaluate(mod, base, list(faults))
        else:
            base2, faults2, r = minimise(mod, base, list(faults), key)
        ff = [x for x in r["failures"] if exc_class(x["key"]) == exc_class(key)] or [f]
        f2 = dict(ff[0])
        if strip_category(f2["key"]) in by_key:
            f2["key"] = strip_category(f2["key"])
        entry = {"key": f2["key"], "also_on_element_kinds": sorted(set(by_key[key].get("also_on", []))),
                 "input": {"base": base2, "faults": faults2, "doc": r["doc"], "reference_doc": r["ref"]},
                 "expected": f2["expected"], "got": f2["got"], "cases_failing": by_key[key]["count"], "raw_keys": [key],
                 "explanation": explain(f2["key"])}
        if f2["key"] in merged:
            m = merged[f2["key"]]
            m["cases_failing"] += entry["cases_failing"]
            m["raw_keys"].append(key)
            if len(entry["input"]["doc"]) < len(m["input"]["doc"]):
                entry["cases_failing"], entry["raw_keys"] = m["cases_failing"], m["raw_keys"]
                merged[f2["key"]] = entry
        else:
            merged[f2["key"]] = entry
    failures = [merged[k] for k in sorted(merged)]
    return {
        "evaluations": evaluations,
        "distinct_nontrivial": len(distinct),
        "single_faults": n_single,
        "multi_faults": evaluations - n_single,
        "slow_cyclic_cases_skipped_in_quick_tier": skipped_slow,
        "timing_notes": {"machine_dependent": True, "exceeded_5s_alarm_but_ended_with_exception_within_60s": reclassified},
        "outside_elements_compared": compared,
        "positions_not_isolated": len(not_isolated),
        "base_documents": len(BASE_DOCS),
        "rule": "%d base documents over svg/g/defs/use/rect/circle/ellipse/line/polyline/polygon/path/text(tspan) with an id on "
                "every element; a fault replaces (or adds) one attribute value of one non-style element by a malformed text "
                "from the pool of its type (transform 9, colour 7 on fill and stroke, length 7 on every length attribute and "
                "stroke-width, size 0/-5 on width/height, points 3, viewBox 4, path data 9, inline style 4; transform/fill/"
                "stroke/stroke-width are injected into every element even when absent), or retargets a use (missing id with "
                "and without '#', empty, itself, up to two ancestors, mutual cycles of two uses).  ALL single faults are run; "
                "pairs and triples of singly-passing faults at distinct positions of one document are sampled (quick 2000+800, thorough "
                "60000+30000).  Each run: SVG.parse(io.StringIO(doc)) under signal.alarm(5) and recursion limit 1000; verdicts "
                "(a) no exception, a tree; (b) outside elements identical to the base minus the offending elements.  "
                "distinct_nontrivial = distinct (document, element, attribute, fault kind[, variant]) tuples / fault sets.  "
                "The task's '\\x00' path datum is replaced by non-ASCII garbage: NUL cannot occur in well-formed XML."
                % len(BASE_DOCS),
        "bound": "documents of <= 8 elements, nesting depth <= 4, 1..3 simultaneous faults, fault texts from the fixed pools",
        "exhaustive": False,
        "failures": failures,
        "samples": samples,
    }
