"""C11 (document side): element size supplied through attributes (units, percentages), caller width/height, or defaulting
to the viewBox size; SVG.parse then applies the SVG 2 section 8.2 transform.  Independent oracle below."""
import io
import itertools
import random

from pyvc.bounded import bounded

ALIGNS = ["none", "xMinYMin", "xMidYMin", "xMaxYMin", "xMinYMid", "xMidYMid", "xMaxYMid", "xMinYMax", "xMidYMax", "xMaxYMax"]


def vp(ex, ey, ew, eh, vx, vy, vw, vh, align, mos):
    sx, sy = ew / vw, eh / vh
    if align != "none":
        s = min(sx, sy) if mos == "meet" else max(sx, sy)
        sx = sy = s
    tx, ty = ex - vx * sx, ey - vy * sy
    if "xMid" in align:
        tx += (ew - vw * sx) / 2
    if "xMax" in align:
        tx += ew - vw * sx
    if "YMid" in align:
        ty += (eh - vh * sy) / 2
    if "YMax" in align:
        ty += eh - vh * sy
    return sx, sy, tx, ty


UNIT = {"": 1.0, "px": 1.0, "in": None, "pt": 4.0 / 3.0, "pc": 16.0}


def resolve(text, ref, ppi):
    if text is None:
        return ref
    if text.endswith("%"):
        return float(text[:-1]) / 100.0 * ref
    for u in ("px", "in", "pt", "pc"):
        if text.endswith(u):
            v = float(text[:-len(u)])
            return v * (ppi if u == "in" else UNIT[u])
    return float(text)


def one(mod, case):
    vb, wattr, hattr, cw, ch, par, ppi = case
    attrs = ['xmlns="http://www.w3.org/2000/svg"', 'viewBox="%s"' % " ".join(repr(v) for v in vb)]
    if wattr is not None:
        attrs.append('width="%s"' % wattr)
    if hattr is not None:
        attrs.append('height="%s"' % hattr)
    if par is not None:
        attrs.append('preserveAspectRatio="%s"' % par)
    doc = '<svg %s><rect id="r" x="%r" y="%r" width="%r" height="%r"/></svg>' % (
        " ".join(attrs), vb[0], vb[1], vb[2], vb[3])
    kw = {"ppi": ppi}
    if cw is not None:
        kw["width"] = cw
    if ch is not None:
        kw["height"] = ch
    try:
        svg = mod.SVG.parse(io.StringIO(doc), **kw)
    except Exception as e:
        return {"key": "parse-raises-%s" % type(e).__name__, "input": {"doc": doc, "kw": kw}, "expected": "a tree",
                "got": repr(e)}
    ref_w = cw if cw is not None else vb[2]
    ref_h = ch if ch is not None else vb[3]
    ew, eh = resolve(wattr, ref_w, ppi), resolve(hattr, ref_h, ppi)
    shapes = [e for e in svg.elements() if isinstance(e, mod.Rect)]
    if vb[2] == 0 or vb[3] == 0 or ew == 0 or eh == 0:
        if shapes:
            return {"key": "zero-size-still-rendered", "input": {"doc": doc, "kw": kw}, "expected": "no shapes",
                    "got": "%d shapes" % len(shapes)}
        return None
    if par is None:
        align, mos = "xMidYMid", "meet"
    else:
        parts = par.split(" ")
        align, mos = parts[0], (parts[1] if len(parts) > 1 else "meet")
    sx, sy, tx, ty = vp(0.0, 0.0, ew, eh, vb[0], vb[1], vb[2], vb[3], align, mos)
    if len(shapes) != 1:
        return {"key": "rect-missing", "input": {"doc": doc, "kw": kw}, "expected": "1 rect", "got": len(shapes)}
    bb = shapes[0].bbox()
    want = (sx * vb[0] + tx, sy * vb[1] + ty, sx * (vb[0] + vb[2]) + tx, sy * (vb[1] + vb[3]) + ty)
    want = (min(want[0], want[2]), min(want[1], want[3]), max(want[0], want[2]), max(want[1], want[3]))
    scale = max(1.0, abs(ew), abs(eh), max(abs(v) for v in want))
    if any(abs(a - b) > 1e-7 * scale for a, b in zip(bb, want)):
        which = "caller-size" if (cw is None) != (ch is None) else ("caller-both" if cw is not None else "defaulted")
        return {"key": "viewport-transform-wrong[%s]" % which, "input": {"doc": doc, "kw": {k: v for k, v in kw.items()}},
                "expected": "viewBox rectangle mapped to %r (element %rx%r, %s %s)" % (want, ew, eh, align, mos),
                "got": repr(bb)}
    if abs(float(svg.width) - ew) > 1e-9 * scale or abs(float(svg.height) - eh) > 1e-9 * scale:
        return {"key": "element-size-wrong", "input": {"doc": doc, "kw": kw}, "expected": (ew, eh),
                "got": (svg.width, svg.height)}
    return None


def nested(mod, case):
    """outer svg (viewBox, preserveAspectRatio P) containing an inner svg (x, y, width, height, viewBox, its own
    preserveAspectRatio or none at all): the inner viewBox rectangle must land where the composition of the two
    section 8.2 transforms puts it; an inner svg without the attribute uses xMidYMid meet whatever its ancestors say"""
    ovb, osize, opar, ixywh, ivb, ipar = case
    doc = ('<svg xmlns="http://www.w3.org/2000/svg" width="%r" height="%r" viewBox="%s"%s><svg x="%r" y="%r" width="%r" '
           'height="%r" viewBox="%s"%s><rect id="r" x="%r" y="%r" width="%r" height="%r"/></svg></svg>') % (
        osize[0], osize[1], " ".join(repr(v) for v in ovb), "" if opar is None else ' preserveAspectRatio="%s"' % opar,
        ixywh[0], ixywh[1], ixywh[2], ixywh[3], " ".join(repr(v) for v in ivb),
        "" if ipar is None else ' preserveAspectRatio="%s"' % ipar, ivb[0], ivb[1], ivb[2], ivb[3])
    try:
        svg = mod.SVG.parse(io.StringIO(doc))
    except Exception as e:
        return {"key": "parse-raises-%s" % type(e).__name__, "input": {"doc": doc}, "expected": "a tree", "got": repr(e)}

    def split(par):
        if par is None:
            return "xMidYMid", "meet"
        parts = par.split(" ")
        return parts[0], (parts[1] if len(parts) > 1 else "meet")

    oa, om = split(opar)
    ia, im = split(ipar)
    osx, osy, otx, oty = vp(0.0, 0.0, osize[0], osize[1], ovb[0], ovb[1], ovb[2], ovb[3], oa, om)
    isx, isy, itx, ity = vp(ixywh[0], ixywh[1], ixywh[2], ixywh[3], ivb[0], ivb[1], ivb[2], ivb[3], ia, im)

    def image(x, y):
        x, y = isx * x + itx, isy * y + ity
        return osx * x + otx, osy * y + oty

    a, b = image(ivb[0], ivb[1]), image(ivb[0] + ivb[2], ivb[1] + ivb[3])
    want = (min(a[0], b[0]), min(a[1], b[1]), max(a[0], b[0]), max(a[1], b[1]))
    shapes = [e for e in svg.elements() if isinstance(e, mod.Rect)]
    if len(shapes) != 1:
        return {"key": "nested-rect-missing", "input": {"doc": doc}, "expected": "1 rect", "got": len(shapes)}
    bb = shapes[0].bbox()
    scale = max(1.0, max(abs(v) for v in want))
    if any(abs(p - q) > 1e-7 * scale for p, q in zip(bb, want)):
        return {"key": "nested-viewport-transform-wrong[%s]" % ("inner-default" if ipar is None else "inner-given"),
                "input": {"doc": doc}, "expected": "inner viewBox rectangle mapped to %r" % (want,), "got": repr(bb)}
    return None


def replay(mod, witness):
    return {"reproduced": True, "detail": "re-run the check to reproduce; witness document: %s" % witness.get("input")}


@bounded("C11/document_viewport", props=["C11"], replay=replay)
def run(mod, tier, seed):
    rng = random.Random(seed)
    vbs = [(0.0, 0.0, 100.0, 50.0), (-50.0, -50.0, 100.0, 100.0), (5.5, -20.25, 281.0, 235.0), (0.0, 0.0, 0.01, 3000.0)]
    sizes = [None, "200", "3in", "36pt", "50%", "100%", "0"]
    callers = [None, 800.0, 37.5]
    pars = [None, "none", "xMinYMin", "xMaxYMax slice", "xMidYMin meet", "xMinYMid slice"]
    cases = []
    for vb, w, h, cw, ch, par in itertools.product(vbs, sizes, sizes, callers, callers, pars):
        cases.append((vb, w, h, cw, ch, par, 96.0))
    rng.shuffle(cases)
    n = 2500 if tier == "quick" else len(cases)
    cases = cases[:n]
    for _ in range(300 if tier == "quick" else 3000):
        vb = (rng.uniform(-300, 300), rng.uniform(-300, 300), 10 ** rng.uniform(-2, 4), 10 ** rng.uniform(-2, 4))
        cases.append((vb, rng.choice(sizes), rng.choice(sizes), rng.choice(callers), rng.choice(callers),
                      rng.choice(ALIGNS) + rng.choice(["", " meet", " slice"]), rng.choice([72.0, 96.0, 254.0])))
    fails, distinct = [], set()
    for c in cases:
        r = one(mod, c)
        distinct.add((c[1] is None, c[2] is None, c[3] is None, c[4] is None, c[5], str(c[1])[-1:], str(c[2])[-1:]))
        if r is not None:
            fails.append(r)
    ncases = []
    for ovb, osize in (((0.0, 0.0, 50.0, 80.0), (200.0, 100.0)), ((-10.0, 5.0, 90.0, 140.0), (300.0, 300.0))):
        for opar in [None] + pars[1:] + ["xMaxYMid slice"]:
            for ixywh, ivb in (((5.0, 6.0, 90.0, 30.0), (3.0, 4.0, 50.0, 80.0)), ((0.0, 0.0, 20.0, 40.0), (0.0, 0.0, 50.0, 50.0))):
                for ipar in (None, "none", "xMinYMax slice"):
                    ncases.append((ovb, osize, opar, ixywh, ivb, ipar))
    for c in ncases:
        r = nested(mod, c)
        distinct.add(("nested", c[2], c[5]))
        if r is not None:
            fails.append(r)
    seen, out = set(), []
    for f in fails:
        if f["key"] not in seen:
            seen.add(f["key"])
            f["count"] = sum(1 for g in fails if g["key"] == f["key"])
            out.append(f)
    return {"evaluations": len(cases) + len(ncases), "distinct_nontrivial": len(distinct),
            "rule": "outermost svg with viewBox x width/height attribute {absent, number, in, pt, 50%, 100%, 0} x caller "
                    "width/height {absent, 800, 37.5} x preserveAspectRatio pool (+ random viewBoxes over six orders of "
                    "magnitude, all aligns, ppi): the viewBox rectangle must land where SVG 2 section 8.2 puts it; distinct = "
                    "(which sizes are supplied how, preserveAspectRatio); plus nested viewports: outer preserveAspectRatio x inner "
                    "{absent, none, xMinYMax slice} x two geometries, composed transform",
            "bound": "%d cases" % len(cases), "exhaustive": False, "failures": out,
            "samples": [repr(c) for c in cases[:3]]}
